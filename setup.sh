#!/bin/sh
set -e
cd "$(dirname "$0")"
exit 0

#!/bin/sh
# Build the verification machinery offline from files on disk.
set -e
cd "$(dirname "$0")"
export CARGO_NET_OFFLINE=true
mkdir -p target evidence replays
(cd sim && cargo build --release --offline)
if [ -d shuttle ]; then (cd shuttle && cargo build --release --offline); fi
exit 0

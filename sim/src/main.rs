mod core;
mod hist;
mod model;
mod hostile;
mod hostile2;
mod net;
mod ops2;
mod plan;
mod rng;
mod runner;
mod scen;
mod types;
mod wire;
mod world;
mod driver;
mod batch;

pub mod alloc_count {
    use std::alloc::{GlobalAlloc, Layout, System};
    use std::sync::atomic::{AtomicUsize, Ordering};
    pub static CUR: AtomicUsize = AtomicUsize::new(0);
    pub static PEAK: AtomicUsize = AtomicUsize::new(0);
    /// bytes allocated by the simulator itself (network model, logs) while dust-dds code is on the stack
    pub static EXEMPT: AtomicUsize = AtomicUsize::new(0);
    pub static EXEMPT_DEPTH: AtomicUsize = AtomicUsize::new(0);
    pub static BIG_TRACE: AtomicUsize = AtomicUsize::new(0);
    pub static BIG_LIMIT: AtomicUsize = AtomicUsize::new(32 << 20);
    pub struct Counting;
    pub struct Exempt;
    pub fn exempt() -> Exempt {
        EXEMPT_DEPTH.fetch_add(1, Ordering::Relaxed);
        Exempt
    }
    impl Drop for Exempt {
        fn drop(&mut self) {
            EXEMPT_DEPTH.fetch_sub(1, Ordering::Relaxed);
        }
    }
    pub fn exempt_bytes() -> usize {
        EXEMPT.load(Ordering::Relaxed)
    }
    unsafe impl GlobalAlloc for Counting {
        unsafe fn alloc(&self, l: Layout) -> *mut u8 {
            if l.size() > BIG_LIMIT.load(Ordering::Relaxed) && BIG_TRACE.load(Ordering::Relaxed) == 1 {
                // debugging aid (VERIF_ALLOC_TRACE=1): where does a giant allocation come from
                BIG_TRACE.store(2, Ordering::Relaxed);
                eprintln!("big allocation of {} bytes at\n{}", l.size(), std::backtrace::Backtrace::force_capture());
                BIG_TRACE.store(1, Ordering::Relaxed);
            }
            let p = unsafe { System.alloc(l) };
            if !p.is_null() {
                let c = CUR.fetch_add(l.size(), Ordering::Relaxed) + l.size();
                PEAK.fetch_max(c, Ordering::Relaxed);
                if EXEMPT_DEPTH.load(Ordering::Relaxed) > 0 {
                    EXEMPT.fetch_add(l.size(), Ordering::Relaxed);
                }
            }
            p
        }
        unsafe fn dealloc(&self, p: *mut u8, l: Layout) {
            unsafe { System.dealloc(p, l) };
            CUR.fetch_sub(l.size(), Ordering::Relaxed);
        }
    }
    /// start a measurement: returns the live heap size and resets the peak to it
    pub fn begin() -> usize {
        let c = CUR.load(Ordering::Relaxed);
        PEAK.store(c, Ordering::Relaxed);
        EXEMPT.store(0, Ordering::Relaxed);
        c
    }
    pub fn peak() -> usize {
        PEAK.load(Ordering::Relaxed)
    }
}
#[global_allocator]
static GLOBAL: alloc_count::Counting = alloc_count::Counting;

fn main() {
    if let Ok(v) = std::env::var("VERIF_ALLOC_TRACE") {
        if let Ok(n) = v.parse::<usize>() {
            if n > 1 {
                alloc_count::BIG_LIMIT.store(n, std::sync::atomic::Ordering::Relaxed);
            }
        }
        alloc_count::BIG_TRACE.store(1, std::sync::atomic::Ordering::Relaxed);
    }
    let args: Vec<String> = std::env::args().collect();
    std::process::exit(driver::main(&args[1..]));
}

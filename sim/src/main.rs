mod core;
mod hist;
mod model;
mod hostile;
mod hostile2;
mod net;
mod ops2;
mod plan;
mod rng;
mod runner;
mod scen;
mod types;
mod wire;
mod world;
mod driver;
mod batch;

fn main() {
    let args: Vec<String> = std::env::args().collect();
    std::process::exit(driver::main(&args[1..]));
}

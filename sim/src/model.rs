//! Reference model of a DDS DataReader history cache, written from the DDS 1.4 specification
//! (2.2.2.5.1 SampleInfo, 2.2.2.5.3 read/take, 2.2.3 QoS). Contains no dust-dds code.

use std::collections::{BTreeMap, BTreeSet};

#[derive(Clone, Debug, Default)]
pub struct Cfg {
    /// 0 = KEEP_ALL
    pub depth: u32,
    pub max_samples: Option<i32>,
    pub max_instances: Option<i32>,
    pub max_spi: Option<i32>,
    pub by_source: bool,
    pub tbf_ns: u64,
}

pub const ALIVE: u8 = 0;
pub const DISPOSED: u8 = 1;
pub const NO_WRITERS: u8 = 2;

#[derive(Clone, Debug)]
pub struct MInst {
    pub key: u8,
    pub state: u8,
    pub new: bool,
    pub dgc: i32,
    pub nwgc: i32,
    pub writers: BTreeSet<u32>,
    /// source timestamp of the last sample of this instance that passed the time-based filter
    pub last_passed_ts: Option<i64>,
    /// dgc + nwgc when the most recent sample of the instance was received (it may have been taken since)
    pub mrs_generation: i32,
}

#[derive(Clone, Debug, PartialEq)]
pub struct MSample {
    pub uid: u32,
    pub key: u8,
    pub writer: u32,
    pub ts: i64,
    pub read: bool,
    pub dgc: i32,
    pub nwgc: i32,
}

#[derive(Clone, Debug, PartialEq)]
pub enum Rx {
    Stored,
    /// applicable rejection reasons: 1 instances, 2 samples, 3 samples per instance
    Rejected(Vec<u8>),
    Filtered,
    /// state change only (dispose / unregister)
    StateOnly,
    /// change for an instance the reader does not know
    Unknown,
}

#[derive(Clone, Copy, Debug, PartialEq)]
pub enum Kind {
    Alive,
    Dispose,
    Unregister,
    /// unregister with autodispose_unregistered_instances
    DisposeUnregister,
}

#[derive(Clone, Debug, Default)]
pub struct Model {
    pub cfg: Cfg,
    pub inst: BTreeMap<u8, MInst>,
    pub samples: Vec<MSample>,
    pub rejected_total: i32,
    /// the model could not decide (the specification leaves the case open); stop judging exact content
    pub ambiguous: Option<String>,
}

impl Model {
    pub fn new(cfg: Cfg) -> Self {
        Model { cfg, ..Default::default() }
    }

    pub fn receive(&mut self, kind: Kind, writer: u32, key: u8, uid: u32, ts: i64) -> Rx {
        match kind {
            Kind::Alive => {
                // time based filter (2.2.3.12): at most one sample per minimum_separation per instance
                if self.cfg.tbf_ns > 0 {
                    if let Some(i) = self.inst.get(&key) {
                        if let Some(last) = i.last_passed_ts {
                            if ts >= last && ((ts - last) as u64) < self.cfg.tbf_ns {
                                return Rx::Filtered;
                            }
                            if ts < last {
                                // out of order with respect to the last passed sample: the specification does not say
                                self.ambiguous = Some("time-based filter with a source timestamp older than the last presented one".into());
                                return Rx::Filtered;
                            }
                        }
                    }
                }
                let known = self.inst.contains_key(&key);
                let n_inst_samples = self.samples.iter().filter(|s| s.key == key).count() as i32;
                // KEEP_LAST makes room first: a new sample replaces the oldest of its instance
                let will_replace = self.cfg.depth > 0 && n_inst_samples as u32 >= self.cfg.depth;
                let mut reasons = vec![];
                let total_after_replace = self.samples.len() as i32 - if will_replace { 1 } else { 0 };
                let inst_after_replace = n_inst_samples - if will_replace { 1 } else { 0 };
                if self.cfg.max_samples.is_some_and(|m| total_after_replace >= m) {
                    reasons.push(2);
                }
                let instances_with_samples: BTreeSet<u8> = self.samples.iter().map(|s| s.key).collect();
                if !instances_with_samples.contains(&key) {
                    if let Some(m) = self.cfg.max_instances {
                        let alive_known = self.inst.len() as i32;
                        if instances_with_samples.len() as i32 >= m {
                            reasons.push(1);
                        } else if !known && alive_known >= m {
                            // instance known but all its samples taken: whether its resources are freed is implementation defined
                            self.ambiguous = Some("max_instances with an emptied instance".into());
                        }
                    }
                }
                if self.cfg.max_spi.is_some_and(|m| inst_after_replace >= m) {
                    reasons.push(3);
                }
                if !reasons.is_empty() {
                    self.rejected_total += 1;
                    return Rx::Rejected(reasons);
                }
                // instance life cycle (figure 2.11)
                let e = self.inst.entry(key).or_insert(MInst { key, state: ALIVE, new: true, dgc: 0, nwgc: 0, writers: BTreeSet::new(), last_passed_ts: None, mrs_generation: 0 });
                match e.state {
                    DISPOSED => {
                        e.state = ALIVE;
                        e.dgc += 1;
                        e.new = true;
                    }
                    NO_WRITERS => {
                        e.state = ALIVE;
                        e.nwgc += 1;
                        e.new = true;
                    }
                    _ => {}
                }
                e.writers.insert(writer);
                e.last_passed_ts = Some(ts);
                let (dgc, nwgc) = (e.dgc, e.nwgc);
                e.mrs_generation = dgc + nwgc;
                if will_replace {
                    if let Some(pos) = self.samples.iter().position(|s| s.key == key) {
                        self.samples.remove(pos);
                    }
                }
                let s = MSample { uid, key, writer, ts, read: false, dgc, nwgc };
                if self.cfg.by_source {
                    // after the last sample whose timestamp is <= ts (stable for equal stamps)
                    let pos = self.samples.iter().rposition(|x| x.ts <= ts).map(|p| p + 1).unwrap_or(0);
                    self.samples.insert(pos, s);
                } else {
                    self.samples.push(s);
                }
                Rx::Stored
            }
            Kind::Dispose | Kind::DisposeUnregister | Kind::Unregister => {
                let Some(e) = self.inst.get_mut(&key) else { return Rx::Unknown };
                if kind != Kind::Dispose {
                    e.writers.remove(&writer);
                }
                match kind {
                    Kind::Dispose | Kind::DisposeUnregister => {
                        if e.state == ALIVE {
                            e.state = DISPOSED;
                        } else if e.state == NO_WRITERS {
                            self.ambiguous = Some("dispose of an instance that is NOT_ALIVE_NO_WRITERS".into());
                        }
                    }
                    _ => {
                        if e.state == ALIVE && e.writers.is_empty() {
                            e.state = NO_WRITERS;
                        }
                    }
                }
                Rx::StateOnly
            }
        }
    }

    /// indexes (storage order) of stored samples matching the masks (0 = any) and the instance
    pub fn select(&self, ss: u8, vs: u8, is: u8, key: Option<u8>) -> Vec<usize> {
        let mut out = vec![];
        for (i, s) in self.samples.iter().enumerate() {
            if key.is_some_and(|k| k != s.key) {
                continue;
            }
            let inst = &self.inst[&s.key];
            let ss_ok = ss == 0 || (s.read && ss & 1 != 0) || (!s.read && ss & 2 != 0);
            let vs_ok = vs == 0 || (inst.new && vs & 1 != 0) || (!inst.new && vs & 2 != 0);
            let is_ok = is == 0 || (is & (1 << inst.state)) != 0;
            if ss_ok && vs_ok && is_ok {
                out.push(i);
            }
        }
        out
    }

    /// the caller accessed these uids (read or take) and the instances with these keys
    pub fn access(&mut self, uids: &[u32], keys: &[u8], take: bool) {
        for k in keys {
            if let Some(i) = self.inst.get_mut(k) {
                i.new = false;
            }
        }
        if take {
            self.samples.retain(|s| !uids.contains(&s.uid));
        } else {
            for s in self.samples.iter_mut() {
                if uids.contains(&s.uid) {
                    s.read = true;
                }
            }
        }
    }

    pub fn most_recent(&self, key: u8) -> Option<&MSample> {
        self.samples.iter().rev().find(|s| s.key == key)
    }
}

#[cfg(test)]
mod tests {
    use super::*;

    // DDS 1.4 figure 2.11 / 2.2.2.5.1.3-6: instance life cycle examples
    #[test]
    fn life_cycle() {
        let mut m = Model::new(Cfg::default());
        assert_eq!(m.receive(Kind::Alive, 1, 7, 1, 0), Rx::Stored);
        assert_eq!((m.inst[&7].state, m.inst[&7].new, m.inst[&7].dgc, m.inst[&7].nwgc), (ALIVE, true, 0, 0));
        m.access(&[1], &[7], false);
        assert!(!m.inst[&7].new);
        m.receive(Kind::Dispose, 1, 7, 0, 0);
        assert_eq!(m.inst[&7].state, DISPOSED);
        assert!(!m.inst[&7].new, "dispose does not make the instance NEW");
        m.receive(Kind::Alive, 1, 7, 2, 0);
        assert_eq!((m.inst[&7].state, m.inst[&7].new, m.inst[&7].dgc), (ALIVE, true, 1));
        m.access(&[2], &[7], true);
        m.receive(Kind::Unregister, 1, 7, 0, 0);
        assert_eq!(m.inst[&7].state, NO_WRITERS);
        m.receive(Kind::Alive, 2, 7, 3, 0);
        assert_eq!((m.inst[&7].state, m.inst[&7].new, m.inst[&7].nwgc), (ALIVE, true, 1));
    }

    #[test]
    fn two_writers_unregister() {
        let mut m = Model::new(Cfg::default());
        m.receive(Kind::Alive, 1, 1, 1, 0);
        m.receive(Kind::Alive, 2, 1, 2, 0);
        m.receive(Kind::Unregister, 1, 1, 0, 0);
        assert_eq!(m.inst[&1].state, ALIVE);
        m.receive(Kind::Unregister, 2, 1, 0, 0);
        assert_eq!(m.inst[&1].state, NO_WRITERS);
    }

    #[test]
    fn keep_last_and_limits() {
        let mut m = Model::new(Cfg { depth: 2, max_spi: Some(2), ..Default::default() });
        for u in 1..=5 {
            assert_eq!(m.receive(Kind::Alive, 1, 0, u, 0), Rx::Stored, "KEEP_LAST never rejects for depth");
        }
        assert_eq!(m.samples.iter().map(|s| s.uid).collect::<Vec<_>>(), vec![4, 5]);
        let mut m = Model::new(Cfg { depth: 0, max_samples: Some(2), ..Default::default() });
        m.receive(Kind::Alive, 1, 0, 1, 0);
        m.receive(Kind::Alive, 1, 1, 2, 0);
        assert_eq!(m.receive(Kind::Alive, 1, 1, 3, 0), Rx::Rejected(vec![2]));
    }

    #[test]
    fn by_source_order() {
        let mut m = Model::new(Cfg { by_source: true, ..Default::default() });
        for (u, t) in [(1, 10), (2, 30), (3, 20), (4, 30), (5, 5)] {
            m.receive(Kind::Alive, 1, 0, u, t);
        }
        assert_eq!(m.samples.iter().map(|s| s.uid).collect::<Vec<_>>(), vec![5, 1, 3, 2, 4]);
    }

    #[test]
    fn time_based_filter() {
        let mut m = Model::new(Cfg { tbf_ns: 100, ..Default::default() });
        assert_eq!(m.receive(Kind::Alive, 1, 0, 1, 0), Rx::Stored);
        assert_eq!(m.receive(Kind::Alive, 1, 0, 2, 99), Rx::Filtered);
        assert_eq!(m.receive(Kind::Alive, 1, 0, 3, 100), Rx::Stored);
        assert_eq!(m.receive(Kind::Alive, 1, 1, 4, 101), Rx::Stored, "filter is per instance");
    }
}

//! SimNet: the only transport the simulated system sees. In-memory datagram network with
//! seeded faults decided per (datagram, destination) ordinal.

use crate::core::{with_core, Class};
use crate::rng::unit;
use crate::wire::{self, Parsed};
use dust_dds::transport::interface::{RtpsTransportParticipant, TransportDataReceiver, TransportParticipantFactory, WriteMessage};
use dust_dds::transport::types::{Locator, LOCATOR_KIND_UDP_V4};
use serde::{Deserialize, Serialize};
use std::cell::RefCell;
use std::collections::BTreeMap;
use std::rc::Rc;

fn d_all() -> u32 {
    wire::C_ALL
}
fn is_zero(v: &u64) -> bool {
    *v == 0
}
fn is_zero_f(v: &f64) -> bool {
    *v == 0.0
}

#[derive(Clone, Debug, Serialize, Deserialize, PartialEq)]
pub struct FaultRule {
    pub from_ms: u64,
    pub to_ms: u64,
    #[serde(default, skip_serializing_if = "Option::is_none")]
    pub src: Option<usize>,
    #[serde(default, skip_serializing_if = "Option::is_none")]
    pub dst: Option<usize>,
    #[serde(default = "d_all")]
    pub class: u32,
    #[serde(default, skip_serializing_if = "is_zero_f")]
    pub drop: f64,
    #[serde(default, skip_serializing_if = "is_zero_f")]
    pub dup: f64,
    #[serde(default, skip_serializing_if = "is_zero")]
    pub jitter_us: u64,
}

#[derive(Clone, Debug, Serialize, Deserialize, PartialEq)]
pub struct Partition {
    pub from_ms: u64,
    pub to_ms: u64,
    pub a: Vec<usize>,
    pub b: Vec<usize>,
    #[serde(default = "d_all")]
    pub class: u32,
    /// only a -> b is cut
    #[serde(default)]
    pub oneway: bool,
}

#[derive(Clone, Debug, Serialize, Deserialize, PartialEq)]
#[serde(tag = "a", rename_all = "lowercase")]
pub enum Action {
    Drop,
    Dup { extra_us: u64 },
    Delay { us: u64 },
}

/// "the nth datagram matching (class, src, dst) gets `action`"
#[derive(Clone, Debug, Serialize, Deserialize, PartialEq)]
pub struct Scripted {
    pub class: u32,
    #[serde(default, skip_serializing_if = "Option::is_none")]
    pub src: Option<usize>,
    #[serde(default, skip_serializing_if = "Option::is_none")]
    pub dst: Option<usize>,
    pub nth: u64,
    pub action: Action,
}

#[derive(Clone, Debug, Serialize, Deserialize, PartialEq, Default)]
pub struct Fate {
    #[serde(default, skip_serializing_if = "std::ops::Not::not")]
    pub drop: bool,
    #[serde(default, skip_serializing_if = "Option::is_none")]
    pub dup_us: Option<u64>,
    #[serde(default, skip_serializing_if = "is_zero")]
    pub delay_us: u64,
}

#[derive(Clone, Debug, Serialize, Deserialize, PartialEq, Default)]
pub struct Coalesce {
    /// hold a user DATA datagram this long waiting for a follower to merge with
    pub hold_us: u64,
    pub max: usize,
}

#[derive(Clone, Debug, Serialize, Deserialize, PartialEq)]
pub struct NetPlan {
    pub seed: u64,
    pub latency_us: u64,
    #[serde(default, skip_serializing_if = "is_zero")]
    pub jitter_us: u64,
    #[serde(default, skip_serializing_if = "Vec::is_empty")]
    pub rules: Vec<FaultRule>,
    #[serde(default, skip_serializing_if = "Vec::is_empty")]
    pub partitions: Vec<Partition>,
    #[serde(default, skip_serializing_if = "Vec::is_empty")]
    pub scripted: Vec<Scripted>,
    /// when present, replaces rules/partitions/scripted: explicit fate per ordinal
    #[serde(default, skip_serializing_if = "Option::is_none")]
    pub frozen: Option<BTreeMap<u64, Fate>>,
    /// no fault fires at or after this simulated time
    #[serde(default, skip_serializing_if = "Option::is_none")]
    pub heal_ms: Option<u64>,
    #[serde(default)]
    pub shared_medium: bool,
    #[serde(default, skip_serializing_if = "Option::is_none")]
    pub coalesce: Option<Coalesce>,
    pub fragment_size: usize,
    /// keep the bytes of every datagram (C06 mutates captured traffic)
    #[serde(default, skip_serializing_if = "std::ops::Not::not")]
    pub capture: bool,
}

impl NetPlan {
    pub fn clean(seed: u64, fragment_size: usize) -> Self {
        NetPlan { seed, latency_us: 100, jitter_us: 0, rules: vec![], partitions: vec![], scripted: vec![], frozen: None, heal_ms: None, shared_medium: false, coalesce: None, fragment_size, capture: false }
    }
}

#[derive(Clone, Copy, Debug, PartialEq, Eq)]
pub enum Port {
    MetaUni,
    UserUni,
    MetaMulti,
}

/// one receive socket of a node: a FIFO drained by a single task, like the receive thread of the real transport
pub struct Sock {
    pub q: RefCell<std::collections::VecDeque<Vec<u8>>>,
    pub waker: RefCell<Option<std::task::Waker>>,
    pub closed: std::cell::Cell<bool>,
}
struct SockRecv(Rc<Sock>);
impl std::future::Future for SockRecv {
    type Output = Option<Vec<u8>>;
    fn poll(self: std::pin::Pin<&mut Self>, cx: &mut std::task::Context<'_>) -> std::task::Poll<Self::Output> {
        if let Some(b) = self.0.q.borrow_mut().pop_front() {
            return std::task::Poll::Ready(Some(b));
        }
        if self.0.closed.get() {
            return std::task::Poll::Ready(None);
        }
        *self.0.waker.borrow_mut() = Some(cx.waker().clone());
        std::task::Poll::Pending
    }
}

pub struct Node {
    pub socks: [Rc<Sock>; 3],
    pub id: usize,
    pub domain_id: i32,
    pub receiver: TransportDataReceiver,
    pub open: bool,     // message writer still alive (participant not deleted)
    pub crashed: bool,  // blackholed
    pub created_at: u64,
}

#[derive(Clone, Debug)]
pub struct WireRec {
    pub ordinal: u64,
    pub t_send: u64,
    pub t_arr: Option<u64>, // None = dropped
    pub src: Option<usize>, // None = injected by hostile node
    pub dst: usize,
    pub port: Port,
    pub class: u32,
    pub parsed: Rc<Parsed>,
    pub len: usize,
    pub dup: bool,
    pub delivered_step: Option<u64>,
    pub bytes: Option<Rc<Vec<u8>>>,
}

struct Arrival {
    dst: usize,
    bytes: Vec<u8>,
    rec: usize, // index in wire log
}

struct Held {
    src: usize,
    dst: usize,
    port: Port,
    bytes: Vec<u8>,
    n: usize,
    release_id: u64,
}

pub struct Net {
    pub plan: NetPlan,
    pub nodes: Vec<Node>,
    next_ordinal: u64,
    next_arrival: u64,
    arrivals: BTreeMap<u64, ArrivalKind>,
    pub wire: Vec<WireRec>,
    pub fired: BTreeMap<u64, Fate>,
    scripted_seen: Vec<u64>,
    pub stats: BTreeMap<&'static str, u64>,
    last_arr_on_link: BTreeMap<(usize, usize), u64>,
    held: Vec<Held>,
    pub frozen_net: bool, // C03: freeze deliveries
    frozen_backlog: Vec<u64>,
    pub healed_at: Option<u64>,
}

enum ArrivalKind {
    Datagram(Arrival),
    ReleaseHeld(u64),
}

thread_local! {
    pub static NET: RefCell<Option<Net>> = const { RefCell::new(None) };
}

pub fn with_net<R>(f: impl FnOnce(&mut Net) -> R) -> R {
    let _sim = crate::alloc_count::exempt();
    NET.with(|n| f(n.borrow_mut().as_mut().expect("net not initialised")))
}

pub fn init(plan: NetPlan) {
    let n = plan.scripted.len();
    NET.with(|c| {
        *c.borrow_mut() = Some(Net {
            plan,
            nodes: vec![],
            next_ordinal: 0,
            next_arrival: 0,
            arrivals: BTreeMap::new(),
            wire: vec![],
            fired: BTreeMap::new(),
            scripted_seen: vec![0; n],
            stats: BTreeMap::new(),
            last_arr_on_link: BTreeMap::new(),
            held: vec![],
            frozen_net: false,
            frozen_backlog: vec![],
            healed_at: None,
        })
    });
}

pub fn addr(node: usize) -> [u8; 16] {
    [0, 0, 0, 0, 0, 0, 0, 0, 0, 0, 0, 0, 10, 0, (node / 250) as u8, (node % 250 + 1) as u8]
}
pub const MULTI_ADDR: [u8; 16] = [0, 0, 0, 0, 0, 0, 0, 0, 0, 0, 0, 0, 239, 255, 0, 1];
pub fn meta_uni(node: usize) -> Locator {
    Locator::new(LOCATOR_KIND_UDP_V4, 7410, addr(node))
}
pub fn user_uni(node: usize) -> Locator {
    Locator::new(LOCATOR_KIND_UDP_V4, 7411, addr(node))
}
pub fn multi_port(domain_id: i32, shared: bool) -> u32 {
    if shared { 7400 } else { 7400 + 250 * (domain_id.rem_euclid(200) as u32) }
}
pub fn meta_multi(domain_id: i32, shared: bool) -> Locator {
    Locator::new(LOCATOR_KIND_UDP_V4, multi_port(domain_id, shared), MULTI_ADDR)
}

fn node_of_addr(a: &[u8; 16]) -> Option<usize> {
    if a[12] == 10 && a[13] == 0 && a[15] >= 1 {
        Some(a[14] as usize * 250 + a[15] as usize - 1)
    } else {
        None
    }
}

impl Net {
    fn bump(&mut self, k: &'static str) {
        *self.stats.entry(k).or_insert(0) += 1;
    }
    fn resolve(&self, loc: &Locator) -> Vec<(usize, Port)> {
        let a = loc.address();
        if loc.kind() != LOCATOR_KIND_UDP_V4 {
            return vec![];
        }
        if (224..=239).contains(&a[12]) {
            self.nodes
                .iter()
                .filter(|n| a == MULTI_ADDR && multi_port(n.domain_id, self.plan.shared_medium) == loc.port())
                .map(|n| (n.id, Port::MetaMulti))
                .collect()
        } else if let Some(n) = node_of_addr(&a) {
            if n < self.nodes.len() {
                match loc.port() {
                    7410 => vec![(n, Port::MetaUni)],
                    7411 => vec![(n, Port::UserUni)],
                    _ => vec![],
                }
            } else {
                vec![]
            }
        } else {
            vec![]
        }
    }

    /// decide the fate of one (datagram, destination)
    fn fate(&mut self, ordinal: u64, now: u64, src: usize, dst: usize, class: u32) -> Fate {
        if let Some(fr) = &self.plan.frozen {
            return fr.get(&ordinal).cloned().unwrap_or_default();
        }
        let mut f = Fate::default();
        let now_ms = now / 1_000_000;
        if self.plan.heal_ms.is_some_and(|h| now_ms >= h) {
            return f;
        }
        for p in &self.plan.partitions {
            if now_ms >= p.from_ms && now_ms < p.to_ms && (p.class & class) != 0 {
                let ab = p.a.contains(&src) && p.b.contains(&dst);
                let ba = p.b.contains(&src) && p.a.contains(&dst);
                if ab || (ba && !p.oneway) {
                    f.drop = true;
                    *self.stats.entry("partition_drop").or_insert(0) += 1;
                    return f;
                }
            }
        }
        for (i, s) in self.plan.scripted.iter().enumerate() {
            if (s.class & class) != 0 && s.src.is_none_or(|x| x == src) && s.dst.is_none_or(|x| x == dst) {
                let seen = self.scripted_seen[i];
                self.scripted_seen[i] += 1;
                if seen == s.nth {
                    match &s.action {
                        Action::Drop => f.drop = true,
                        Action::Dup { extra_us } => f.dup_us = Some(*extra_us),
                        Action::Delay { us } => f.delay_us += *us,
                    }
                    *self.stats.entry("scripted").or_insert(0) += 1;
                }
            }
        }
        let seed = self.plan.seed;
        for (ri, r) in self.plan.rules.iter().enumerate() {
            if now_ms >= r.from_ms && now_ms < r.to_ms && (r.class & class) != 0 && r.src.is_none_or(|x| x == src) && r.dst.is_none_or(|x| x == dst) {
                let lane = 16 * (ri as u64 + 1);
                if r.drop > 0.0 && unit(seed, ordinal, lane) < r.drop {
                    f.drop = true;
                }
                if r.dup > 0.0 && unit(seed, ordinal, lane + 1) < r.dup {
                    let extra = (unit(seed, ordinal, lane + 2) * (r.jitter_us.max(200) as f64)) as u64;
                    f.dup_us = Some(extra);
                }
                if r.jitter_us > 0 {
                    f.delay_us += (unit(seed, ordinal, lane + 3) * r.jitter_us as f64) as u64;
                }
            }
        }
        f
    }

    fn base_latency_ns(&self, ordinal: u64) -> u64 {
        let j = if self.plan.jitter_us > 0 { (unit(self.plan.seed, ordinal, 7) * self.plan.jitter_us as f64 * 1000.0) as u64 } else { 0 };
        self.plan.latency_us * 1000 + j
    }
}

/// called by a node's message writer
fn send(src: usize, buf: &[u8], locators: &[Locator]) {
    let (now, step) = with_core(|c| (c.now, c.step));
    let mut to_schedule: Vec<(u64, u64)> = vec![];
    with_net(|net| {
        if net.nodes[src].crashed {
            net.bump("crash_drop");
            return;
        }
        let parsed = Rc::new(wire::parse(buf));
        let class = wire::classify(&parsed);
        let mut dests: Vec<(usize, Port)> = vec![];
        for l in locators {
            for d in net.resolve(l) {
                if !dests.contains(&d) {
                    dests.push(d);
                }
            }
        }
        net.bump("sent");
        for s in &parsed.subs {
            match s {
                wire::Sub::Gap { writer, .. } if !wire::is_builtin(*writer) => net.bump("probe.sent.gap"),
                wire::Sub::NackFrag { writer, .. } if !wire::is_builtin(*writer) => net.bump("probe.sent.nack_frag"),
                wire::Sub::Heartbeat { writer, .. } if !wire::is_builtin(*writer) => net.bump("probe.sent.heartbeat"),
                wire::Sub::AckNack { writer, .. } if !wire::is_builtin(*writer) => net.bump("probe.sent.acknack"),
                wire::Sub::DataFrag { writer, .. } if !wire::is_builtin(*writer) => net.bump("probe.sent.data_frag"),
                wire::Sub::Data { writer, .. } if !wire::is_builtin(*writer) => net.bump("probe.sent.data"),
                _ => {}
            }
        }
        for (dst, port) in dests {
            // coalescing of consecutive user DATA datagrams on one link
            if let Some(co) = net.plan.coalesce.clone() {
                if class & wire::C_UDATA != 0 && class & !(wire::C_UDATA | wire::C_UHB) == 0 && port == Port::UserUni && parsed.ok {
                    if let Some(h) = net.held.iter_mut().find(|h| h.src == src && h.dst == dst && h.port == port) {
                        h.bytes.extend_from_slice(&buf[20..]);
                        h.n += 1;
                        *net.stats.entry("coalesce").or_insert(0) += 1;
                        if h.n >= co.max {
                            let rid = h.release_id;
                            to_schedule.push((now, rid));
                        }
                        continue;
                    }
                    let rid = net.next_arrival;
                    net.next_arrival += 1;
                    net.arrivals.insert(rid, ArrivalKind::ReleaseHeld(rid));
                    net.held.push(Held { src, dst, port, bytes: buf.to_vec(), n: 1, release_id: rid });
                    to_schedule.push((now + co.hold_us * 1000, rid));
                    continue;
                }
            }
            net.emit(src, dst, port, buf, parsed.clone(), class, now, step, &mut to_schedule);
        }
    });
    with_core(|c| {
        for (t, id) in to_schedule {
            c.schedule_net(t, id);
        }
    });
}

impl Net {
    #[allow(clippy::too_many_arguments)]
    fn emit(&mut self, src: usize, dst: usize, port: Port, buf: &[u8], parsed: Rc<Parsed>, class: u32, now: u64, _step: u64, out: &mut Vec<(u64, u64)>) {
        let ordinal = self.next_ordinal;
        self.next_ordinal += 1;
        let fate = self.fate(ordinal, now, src, dst, class);
        if fate != Fate::default() {
            self.fired.insert(ordinal, fate.clone());
        }
        let rec_base = WireRec { ordinal, t_send: now, t_arr: None, src: Some(src), dst, port, class, parsed, len: buf.len(), dup: false, delivered_step: None, bytes: if self.plan.capture { Some(Rc::new(buf.to_vec())) } else { None } };
        if self.nodes[dst].crashed {
            self.bump("crash_drop");
            self.wire.push(rec_base);
            return;
        }
        if fate.drop {
            self.bump("drop");
            self.wire.push(rec_base);
            return;
        }
        let lat = self.base_latency_ns(ordinal) + fate.delay_us * 1000;
        let t_arr = now + lat;
        if fate.delay_us > 0 {
            self.bump("delayed");
        }
        let link = (src, dst);
        let last = self.last_arr_on_link.get(&link).copied().unwrap_or(0);
        if t_arr < last {
            self.bump("reorder");
        } else {
            self.last_arr_on_link.insert(link, t_arr);
        }
        let mut rec = rec_base.clone();
        rec.t_arr = Some(t_arr);
        self.wire.push(rec);
        let id = self.next_arrival;
        self.next_arrival += 1;
        self.arrivals.insert(id, ArrivalKind::Datagram(Arrival { dst, bytes: buf.to_vec(), rec: self.wire.len() - 1 }));
        out.push((t_arr, id));
        if let Some(extra) = fate.dup_us {
            self.bump("dup");
            let mut rec = rec_base;
            let t2 = t_arr + extra * 1000 + 1;
            rec.t_arr = Some(t2);
            rec.dup = true;
            self.wire.push(rec);
            let id = self.next_arrival;
            self.next_arrival += 1;
            self.arrivals.insert(id, ArrivalKind::Datagram(Arrival { dst, bytes: buf.to_vec(), rec: self.wire.len() - 1 }));
            out.push((t2, id));
        }
    }
}

/// hostile / scripted injection of a datagram straight to a node
pub fn inject(dst: usize, port: Port, bytes: Vec<u8>, delay_ns: u64) {
    let (now, _step) = with_core(|c| (c.now, c.step));
    let id = with_net(|net| {
        let parsed = Rc::new(wire::parse(&bytes));
        let class = wire::classify(&parsed);
        net.bump("inject");
        let ordinal = net.next_ordinal;
        net.next_ordinal += 1;
        let kept = if net.plan.capture { Some(Rc::new(bytes.clone())) } else { None };
        net.wire.push(WireRec { ordinal, t_send: now, t_arr: Some(now + delay_ns), src: None, dst, port, class, parsed, len: bytes.len(), dup: false, delivered_step: None, bytes: kept });
        let id = net.next_arrival;
        net.next_arrival += 1;
        let rec = net.wire.len() - 1;
        net.arrivals.insert(id, ArrivalKind::Datagram(Arrival { dst, bytes, rec }));
        id
    });
    with_core(|c| c.schedule_net(now + delay_ns, id));
}

/// called by the executor when an arrival event is due
pub fn arrival(id: u64) {
    let (now, step) = with_core(|c| (c.now, c.step));
    enum Todo {
        Nothing,
        Deliver(Rc<Sock>, Vec<u8>),
        Emit(Vec<(u64, u64)>),
    }
    let todo = with_net(|net| {
        if net.frozen_net {
            net.frozen_backlog.push(id);
            return Todo::Nothing;
        }
        match net.arrivals.remove(&id) {
            None => Todo::Nothing,
            Some(ArrivalKind::ReleaseHeld(rid)) => {
                if let Some(pos) = net.held.iter().position(|h| h.release_id == rid) {
                    let h = net.held.remove(pos);
                    let parsed = Rc::new(wire::parse(&h.bytes));
                    let class = wire::classify(&parsed);
                    let mut out = vec![];
                    if h.n > 1 {
                        *net.stats.entry("coalesced_datagrams").or_insert(0) += 1;
                    }
                    net.emit(h.src, h.dst, h.port, &h.bytes, parsed, class, now, step, &mut out);
                    Todo::Emit(out)
                } else {
                    Todo::Nothing
                }
            }
            Some(ArrivalKind::Datagram(a)) => {
                if net.nodes[a.dst].crashed || !net.nodes[a.dst].open {
                    net.bump("closed_drop");
                    net.wire[a.rec].t_arr = None;
                    return Todo::Nothing;
                }
                net.wire[a.rec].t_arr = Some(now);
                net.wire[a.rec].delivered_step = Some(step);
                net.bump("delivered");
                let port = match net.wire[a.rec].port {
                    Port::MetaUni => 0,
                    Port::UserUni => 1,
                    Port::MetaMulti => 2,
                };
                Todo::Deliver(net.nodes[a.dst].socks[port].clone(), a.bytes)
            }
        }
    });
    match todo {
        Todo::Nothing => {}
        Todo::Emit(v) => with_core(|c| {
            for (t, id) in v {
                c.schedule_net(t, id);
            }
        }),
        Todo::Deliver(sock, bytes) => {
            with_core(|c| {
                c.fp.u64(0xD1);
                c.fp.u64(id);
                c.trace(|| format!("net arrival {} ({} bytes)", id, bytes.len()));
            });
            with_core(|c| c.bytes_since_worker_poll += bytes.len() as u64);
            sock.q.borrow_mut().push_back(bytes);
            let w = sock.waker.borrow_mut().take();
            if let Some(w) = w {
                w.wake();
            }
        }
    }
}

pub fn freeze(on: bool) {
    let backlog = with_net(|net| {
        net.frozen_net = on;
        if !on { std::mem::take(&mut net.frozen_backlog) } else { vec![] }
    });
    if !backlog.is_empty() {
        with_core(|c| {
            let now = c.now;
            for id in backlog {
                c.schedule_net(now, id);
            }
        });
    }
}

pub fn crash(node: usize) {
    with_net(|net| {
        if node < net.nodes.len() {
            net.nodes[node].crashed = true;
            *net.stats.entry("crash").or_insert(0) += 1;
        }
    });
}

/// stop all faults from now on
pub fn heal() {
    let now = with_core(|c| c.now);
    with_net(|net| {
        let ms = now / 1_000_000;
        if net.plan.heal_ms.is_none_or(|h| h > ms) {
            net.plan.heal_ms = Some(ms);
        }
        net.healed_at = Some(now);
    });
}

pub fn is_healed() -> bool {
    let now = with_core(|c| c.now);
    with_net(|net| net.plan.frozen.is_none() && net.plan.heal_ms.is_some_and(|h| now / 1_000_000 >= h) || net.healed_at.is_some())
}

/// sim time of the last datagram *sent* whose class intersects `mask`
pub fn last_send_of(mask: u32) -> Option<u64> {
    with_net(|net| net.wire.iter().rev().find(|w| w.class & mask != 0 && w.src.is_some()).map(|w| w.t_send))
}

// ---------------------------------------------------------------------------------------------

pub struct SimWriter {
    node: usize,
}
impl WriteMessage for SimWriter {
    fn write_message(&self, buf: &[u8], locators: &[Locator]) {
        // The real UDP sender resolves every destination locator before it touches the socket; that code runs
        // here, in the caller's (the worker's) context, exactly as it would with the real transport.
        for l in locators {
            let _ = dust_dds::rtps_udp_transport::udp_transport::verif_resolve_destination(*l);
        }
        let _sim = crate::alloc_count::exempt();
        send(self.node, buf, locators);
    }
}
impl Drop for SimWriter {
    fn drop(&mut self) {
        let node = self.node;
        let _ = NET.try_with(|n| {
            if let Ok(mut n) = n.try_borrow_mut() {
                if let Some(n) = n.as_mut() {
                    n.nodes[node].open = false;
                    for s in &n.nodes[node].socks {
                        s.closed.set(true);
                        if let Some(w) = s.waker.borrow_mut().take() {
                            w.wake();
                        }
                    }
                }
            }
        });
    }
}

pub struct SimTransport;
impl TransportParticipantFactory for SimTransport {
    fn create_participant(&self, domain_id: i32, data_receiver: TransportDataReceiver) -> RtpsTransportParticipant {
        let now = with_core(|c| c.now);
        let socks: [Rc<Sock>; 3] = std::array::from_fn(|_| Rc::new(Sock { q: RefCell::new(Default::default()), waker: RefCell::new(None), closed: std::cell::Cell::new(false) }));
        for s in &socks {
            let s = s.clone();
            let rx = data_receiver.clone();
            with_core(|c| {
                c.spawn_local(
                    Class::Delivery,
                    Box::pin(async move {
                        while let Some(b) = SockRecv(s.clone()).await {
                            rx.receive_message(b).await;
                        }
                    }),
                );
            });
        }
        with_net(|net| {
            let id = net.nodes.len();
            net.nodes.push(Node { socks: socks.clone(), id, domain_id, receiver: data_receiver, open: true, crashed: false, created_at: now });
            RtpsTransportParticipant {
                message_writer: Box::new(SimWriter { node: id }),
                default_unicast_locator_list: vec![user_uni(id)],
                metatraffic_unicast_locator_list: vec![meta_uni(id)],
                metatraffic_multicast_locator_list: vec![meta_multi(domain_id, net.plan.shared_medium)],
                default_multicast_locator_list: vec![],
                fragment_size: net.plan.fragment_size,
            }
        })
    }
}

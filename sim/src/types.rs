//! Data types published in simulation, payload generation, QoS conversion, recording listeners.

use crate::core::{with_core};
use crate::hist::{with_hist, Callback, Hd};
use crate::plan::{L, Q};
use crate::rng::mix;
use dust_dds::dds_async::data_reader::DataReaderAsync;
use dust_dds::dds_async::data_reader_listener::DataReaderListener;
use dust_dds::dds_async::data_writer::DataWriterAsync;
use dust_dds::dds_async::data_writer_listener::DataWriterListener;
use dust_dds::dds_async::domain_participant_listener::DomainParticipantListener;
use dust_dds::dds_async::publisher_listener::PublisherListener;
use dust_dds::dds_async::subscriber::SubscriberAsync;
use dust_dds::dds_async::subscriber_listener::SubscriberListener;
use dust_dds::dds_async::topic::TopicAsync;
use dust_dds::dds_async::topic_listener::TopicListener;
use dust_dds::infrastructure::qos::*;
use dust_dds::infrastructure::qos_policy::*;
use dust_dds::infrastructure::status::*;
use dust_dds::infrastructure::time::{Duration, DurationKind};
use dust_dds::infrastructure::type_support::DdsType;
use std::future::Future;

#[derive(Clone, Debug, PartialEq, DdsType)]
pub struct KeyedData {
    #[dust_dds(key)]
    pub key: u8,
    pub seq: u32,
    pub x: i32,
    pub name: String,
    pub body: Vec<u8>,
}

#[derive(Clone, Debug, PartialEq, DdsType)]
pub struct PlainData {
    pub seq: u32,
    pub x: i32,
    pub body: Vec<u8>,
}

#[derive(Clone, Debug, PartialEq, DdsType)]
pub struct OtherData {
    #[dust_dds(key)]
    pub id: u64,
    pub text: String,
    pub z: f64,
}

pub fn body(uid: u32, len: usize) -> Vec<u8> {
    let mut v = Vec::with_capacity(len);
    let mut i = 0u64;
    while v.len() < len {
        let w = mix((uid as u64) << 32 | i).to_le_bytes();
        for b in w {
            if v.len() < len {
                v.push(b);
            }
        }
        i += 1;
    }
    v
}

pub fn body_ok(uid: u32, b: &[u8]) -> bool {
    body(uid, b.len()) == b
}

pub fn handle_of_key(key: u8) -> Hd {
    let mut h = [0u8; 16];
    h[0] = key;
    h
}

pub fn dk(ns: Option<u64>) -> DurationKind {
    match ns {
        None => DurationKind::Infinite,
        Some(n) => DurationKind::Finite(Duration::new((n / 1_000_000_000) as i32, (n % 1_000_000_000) as u32)),
    }
}
pub fn dk_back(d: DurationKind) -> Option<u64> {
    match d {
        DurationKind::Infinite => None,
        DurationKind::Finite(d) => Some(d.sec() as u64 * 1_000_000_000 + d.nanosec() as u64),
    }
}
fn len_of(v: Option<i32>) -> Length {
    match v {
        None => Length::Unlimited,
        Some(n) => Length::Limited(n),
    }
}
fn len_back(l: Length) -> Option<i32> {
    match l {
        Length::Unlimited => None,
        Length::Limited(n) => Some(n),
    }
}
fn durability(k: u8) -> DurabilityQosPolicyKind {
    match k {
        0 => DurabilityQosPolicyKind::Volatile,
        1 => DurabilityQosPolicyKind::TransientLocal,
        2 => DurabilityQosPolicyKind::Transient,
        _ => DurabilityQosPolicyKind::Persistent,
    }
}
fn durability_back(k: DurabilityQosPolicyKind) -> u8 {
    match k {
        DurabilityQosPolicyKind::Volatile => 0,
        DurabilityQosPolicyKind::TransientLocal => 1,
        DurabilityQosPolicyKind::Transient => 2,
        DurabilityQosPolicyKind::Persistent => 3,
    }
}
fn liveliness(k: u8) -> LivelinessQosPolicyKind {
    match k {
        0 => LivelinessQosPolicyKind::Automatic,
        1 => LivelinessQosPolicyKind::ManualByParticipant,
        _ => LivelinessQosPolicyKind::ManualByTopic,
    }
}
fn liveliness_back(k: LivelinessQosPolicyKind) -> u8 {
    match k {
        LivelinessQosPolicyKind::Automatic => 0,
        LivelinessQosPolicyKind::ManualByParticipant => 1,
        LivelinessQosPolicyKind::ManualByTopic => 2,
    }
}

pub fn writer_qos(q: &Q) -> DataWriterQos {
    let mut w = DataWriterQos::default();
    if let Some(r) = q.reliable {
        w.reliability.kind = if r { ReliabilityQosPolicyKind::Reliable } else { ReliabilityQosPolicyKind::BestEffort };
    }
    if let Some(m) = q.mbt_ms {
        w.reliability.max_blocking_time = if m < 0 { DurationKind::Infinite } else { dk(Some(m as u64 * 1_000_000)) };
    }
    if let Some(d) = q.durability {
        w.durability.kind = durability(d);
    }
    if let Some(h) = q.history {
        w.history.kind = if h == 0 { HistoryQosPolicyKind::KeepAll } else { HistoryQosPolicyKind::KeepLast(h) };
    }
    w.resource_limits = ResourceLimitsQosPolicy { max_samples: len_of(q.max_samples), max_instances: len_of(q.max_instances), max_samples_per_instance: len_of(q.max_spi) };
    w.deadline.period = dk(q.deadline_ns);
    if let Some(l) = q.latency_ns {
        w.latency_budget.duration = dk(Some(l));
    }
    if let Some(k) = q.liveliness {
        w.liveliness.kind = liveliness(k);
    }
    w.liveliness.lease_duration = dk(q.lease_ns);
    if q.by_source {
        w.destination_order.kind = DestinationOrderQosPolicyKind::BySourceTimestamp;
    }
    if q.exclusive {
        w.ownership.kind = OwnershipQosPolicyKind::Exclusive;
    }
    w.ownership_strength.value = q.strength;
    w.lifespan.duration = dk(q.lifespan_ns);
    if let Some(a) = q.autodispose {
        w.writer_data_lifecycle.autodispose_unregistered_instances = a;
    }
    if let Some(r) = &q.repr {
        w.representation.value = r.clone();
    }
    w.user_data.value = q.user_data.clone();
    w
}

pub fn writer_qos_back(w: &DataWriterQos) -> Q {
    Q {
        reliable: Some(w.reliability.kind == ReliabilityQosPolicyKind::Reliable),
        mbt_ms: Some(match w.reliability.max_blocking_time {
            DurationKind::Infinite => -1,
            DurationKind::Finite(d) => d.sec() as i64 * 1000 + d.nanosec() as i64 / 1_000_000,
        }),
        durability: Some(durability_back(w.durability.kind)),
        history: Some(match w.history.kind {
            HistoryQosPolicyKind::KeepAll => 0,
            HistoryQosPolicyKind::KeepLast(n) => n,
        }),
        max_samples: len_back(w.resource_limits.max_samples),
        max_instances: len_back(w.resource_limits.max_instances),
        max_spi: len_back(w.resource_limits.max_samples_per_instance),
        deadline_ns: dk_back(w.deadline.period),
        latency_ns: dk_back(w.latency_budget.duration),
        liveliness: Some(liveliness_back(w.liveliness.kind)),
        lease_ns: dk_back(w.liveliness.lease_duration),
        by_source: w.destination_order.kind == DestinationOrderQosPolicyKind::BySourceTimestamp,
        exclusive: w.ownership.kind == OwnershipQosPolicyKind::Exclusive,
        strength: w.ownership_strength.value,
        lifespan_ns: dk_back(w.lifespan.duration),
        tbf_ns: None,
        autodispose: Some(w.writer_data_lifecycle.autodispose_unregistered_instances),
        repr: Some(w.representation.value.clone()),
        user_data: w.user_data.value.clone(),
        ..Default::default()
    }
}

pub fn reader_qos(q: &Q) -> DataReaderQos {
    let mut r = DataReaderQos::default();
    if let Some(x) = q.reliable {
        r.reliability.kind = if x { ReliabilityQosPolicyKind::Reliable } else { ReliabilityQosPolicyKind::BestEffort };
    }
    if let Some(m) = q.mbt_ms {
        r.reliability.max_blocking_time = if m < 0 { DurationKind::Infinite } else { dk(Some(m as u64 * 1_000_000)) };
    }
    if let Some(d) = q.durability {
        r.durability.kind = durability(d);
    }
    if let Some(h) = q.history {
        r.history.kind = if h == 0 { HistoryQosPolicyKind::KeepAll } else { HistoryQosPolicyKind::KeepLast(h) };
    }
    r.resource_limits = ResourceLimitsQosPolicy { max_samples: len_of(q.max_samples), max_instances: len_of(q.max_instances), max_samples_per_instance: len_of(q.max_spi) };
    r.deadline.period = dk(q.deadline_ns);
    if let Some(l) = q.latency_ns {
        r.latency_budget.duration = dk(Some(l));
    }
    if let Some(k) = q.liveliness {
        r.liveliness.kind = liveliness(k);
    }
    r.liveliness.lease_duration = dk(q.lease_ns);
    if q.by_source {
        r.destination_order.kind = DestinationOrderQosPolicyKind::BySourceTimestamp;
    }
    if q.exclusive {
        r.ownership.kind = OwnershipQosPolicyKind::Exclusive;
    }
    if let Some(t) = q.tbf_ns {
        r.time_based_filter.minimum_separation = dk(Some(t));
    }
    if let Some(rp) = &q.repr {
        r.representation.value = rp.clone();
    }
    r.user_data.value = q.user_data.clone();
    r
}

pub fn reader_qos_back(r: &DataReaderQos) -> Q {
    Q {
        reliable: Some(r.reliability.kind == ReliabilityQosPolicyKind::Reliable),
        mbt_ms: Some(match r.reliability.max_blocking_time {
            DurationKind::Infinite => -1,
            DurationKind::Finite(d) => d.sec() as i64 * 1000 + d.nanosec() as i64 / 1_000_000,
        }),
        durability: Some(durability_back(r.durability.kind)),
        history: Some(match r.history.kind {
            HistoryQosPolicyKind::KeepAll => 0,
            HistoryQosPolicyKind::KeepLast(n) => n,
        }),
        max_samples: len_back(r.resource_limits.max_samples),
        max_instances: len_back(r.resource_limits.max_instances),
        max_spi: len_back(r.resource_limits.max_samples_per_instance),
        deadline_ns: dk_back(r.deadline.period),
        latency_ns: dk_back(r.latency_budget.duration),
        liveliness: Some(liveliness_back(r.liveliness.kind)),
        lease_ns: dk_back(r.liveliness.lease_duration),
        by_source: r.destination_order.kind == DestinationOrderQosPolicyKind::BySourceTimestamp,
        exclusive: r.ownership.kind == OwnershipQosPolicyKind::Exclusive,
        tbf_ns: dk_back(r.time_based_filter.minimum_separation).filter(|n| *n > 0),
        repr: Some(r.representation.value.clone()),
        user_data: r.user_data.value.clone(),
        ..Default::default()
    }
}

pub fn topic_qos(q: &Q) -> TopicQos {
    let mut t = TopicQos::default();
    if let Some(x) = q.reliable {
        t.reliability.kind = if x { ReliabilityQosPolicyKind::Reliable } else { ReliabilityQosPolicyKind::BestEffort };
    }
    if let Some(d) = q.durability {
        t.durability.kind = durability(d);
    }
    if let Some(h) = q.history {
        t.history.kind = if h == 0 { HistoryQosPolicyKind::KeepAll } else { HistoryQosPolicyKind::KeepLast(h) };
    }
    t.resource_limits = ResourceLimitsQosPolicy { max_samples: len_of(q.max_samples), max_instances: len_of(q.max_instances), max_samples_per_instance: len_of(q.max_spi) };
    t.deadline.period = dk(q.deadline_ns);
    t.topic_data.value = q.topic_data.clone();
    t
}

pub fn topic_qos_back(t: &TopicQos) -> Q {
    Q {
        reliable: Some(t.reliability.kind == ReliabilityQosPolicyKind::Reliable),
        durability: Some(durability_back(t.durability.kind)),
        history: Some(match t.history.kind {
            HistoryQosPolicyKind::KeepAll => 0,
            HistoryQosPolicyKind::KeepLast(n) => n,
        }),
        max_samples: len_back(t.resource_limits.max_samples),
        max_instances: len_back(t.resource_limits.max_instances),
        max_spi: len_back(t.resource_limits.max_samples_per_instance),
        deadline_ns: dk_back(t.deadline.period),
        topic_data: t.topic_data.value.clone(),
        ..Default::default()
    }
}

fn presentation(p: Option<(u8, bool, bool)>) -> PresentationQosPolicy {
    let mut pr = PresentationQosPolicy::default();
    if let Some((s, c, o)) = p {
        pr.access_scope = if s == 0 { PresentationQosPolicyAccessScopeKind::Instance } else { PresentationQosPolicyAccessScopeKind::Topic };
        pr.coherent_access = c;
        pr.ordered_access = o;
    }
    pr
}

pub fn publisher_qos(q: &Q) -> PublisherQos {
    let mut p = PublisherQos::default();
    if let Some(n) = &q.partition {
        p.partition.name = n.clone();
    }
    p.presentation = presentation(q.presentation);
    if let Some(a) = q.autoenable {
        p.entity_factory.autoenable_created_entities = a;
    }
    p.group_data.value = q.group_data.clone();
    p
}
pub fn publisher_qos_back(p: &PublisherQos) -> Q {
    Q {
        partition: Some(p.partition.name.clone()),
        presentation: Some((if p.presentation.access_scope == PresentationQosPolicyAccessScopeKind::Instance { 0 } else { 1 }, p.presentation.coherent_access, p.presentation.ordered_access)),
        autoenable: Some(p.entity_factory.autoenable_created_entities),
        group_data: p.group_data.value.clone(),
        ..Default::default()
    }
}
pub fn subscriber_qos(q: &Q) -> SubscriberQos {
    let mut p = SubscriberQos::default();
    if let Some(n) = &q.partition {
        p.partition.name = n.clone();
    }
    p.presentation = presentation(q.presentation);
    if let Some(a) = q.autoenable {
        p.entity_factory.autoenable_created_entities = a;
    }
    p.group_data.value = q.group_data.clone();
    p
}
pub fn subscriber_qos_back(p: &SubscriberQos) -> Q {
    Q {
        partition: Some(p.partition.name.clone()),
        presentation: Some((if p.presentation.access_scope == PresentationQosPolicyAccessScopeKind::Instance { 0 } else { 1 }, p.presentation.coherent_access, p.presentation.ordered_access)),
        autoenable: Some(p.entity_factory.autoenable_created_entities),
        group_data: p.group_data.value.clone(),
        ..Default::default()
    }
}
pub fn participant_qos(q: &Q) -> DomainParticipantQos {
    let mut p = DomainParticipantQos::default();
    if let Some(a) = q.autoenable {
        p.entity_factory.autoenable_created_entities = a;
    }
    p.user_data.value = q.user_data.clone();
    p
}
pub fn participant_qos_back(p: &DomainParticipantQos) -> Q {
    Q { autoenable: Some(p.entity_factory.autoenable_created_entities), user_data: p.user_data.value.clone(), ..Default::default() }
}

pub const STATUS_KINDS: [StatusKind; 13] = [
    StatusKind::InconsistentTopic,
    StatusKind::OfferedDeadlineMissed,
    StatusKind::RequestedDeadlineMissed,
    StatusKind::OfferedIncompatibleQos,
    StatusKind::RequestedIncompatibleQos,
    StatusKind::SampleLost,
    StatusKind::SampleRejected,
    StatusKind::DataOnReaders,
    StatusKind::DataAvailable,
    StatusKind::LivelinessLost,
    StatusKind::LivelinessChanged,
    StatusKind::PublicationMatched,
    StatusKind::SubscriptionMatched,
];
pub fn mask_of(m: &[u8]) -> Vec<StatusKind> {
    m.iter().filter(|i| (**i as usize) < 13).map(|i| STATUS_KINDS[*i as usize]).collect()
}
pub fn l_mask(l: &Option<L>) -> Vec<StatusKind> {
    l.as_ref().map(|l| mask_of(&l.mask)).unwrap_or_default()
}

// ---------------------------------------------------------------------------------------------
// recording listener

#[derive(Clone)]
pub struct RecL {
    pub level: &'static str,
    pub owner: u32,
}

fn cb(l: &RecL, what: &'static str, entity: Hd, total: i32, change: i32) -> std::future::Ready<()> {
    cbx(l, what, entity, total, change, 0, [0; 16], vec![])
}
#[allow(clippy::too_many_arguments)]
fn cbx(l: &RecL, what: &'static str, entity: Hd, total: i32, change: i32, code: i32, last: Hd, policies: Vec<(i32, i32)>) -> std::future::Ready<()> {
    let (step, t) = with_core(|c| (c.step, c.now));
    with_hist(|h| h.callbacks.push(Callback { step, t, level: l.level, owner: l.owner, what, entity, total, change, code, last, policies }));
    std::future::ready(())
}
fn rej_code(k: SampleRejectedStatusKind) -> i32 {
    match k {
        SampleRejectedStatusKind::NotRejected => 0,
        SampleRejectedStatusKind::RejectedByInstancesLimit => 1,
        SampleRejectedStatusKind::RejectedBySamplesLimit => 2,
        SampleRejectedStatusKind::RejectedBySamplesPerInstanceLimit => 3,
    }
}
fn hd(h: dust_dds::infrastructure::instance::InstanceHandle) -> Hd {
    h.into()
}

impl<Foo: 'static> DataReaderListener<Foo> for RecL {
    fn on_data_available(&mut self, r: DataReaderAsync<Foo>) -> impl Future<Output = ()> + Send {
        cb(self, "on_data_available", hd(r.get_instance_handle()), 0, 0)
    }
    fn on_sample_rejected(&mut self, r: DataReaderAsync<Foo>, s: SampleRejectedStatus) -> impl Future<Output = ()> + Send {
        cbx(self, "on_sample_rejected", hd(r.get_instance_handle()), s.total_count, s.total_count_change, rej_code(s.last_reason), hd(s.last_instance_handle), vec![])
    }
    fn on_liveliness_changed(&mut self, r: DataReaderAsync<Foo>, s: LivelinessChangedStatus) -> impl Future<Output = ()> + Send {
        cb(self, "on_liveliness_changed", hd(r.get_instance_handle()), s.alive_count, s.alive_count_change)
    }
    fn on_requested_deadline_missed(&mut self, r: DataReaderAsync<Foo>, s: RequestedDeadlineMissedStatus) -> impl Future<Output = ()> + Send {
        cbx(self, "on_requested_deadline_missed", hd(r.get_instance_handle()), s.total_count, s.total_count_change, 0, hd(s.last_instance_handle), vec![])
    }
    fn on_requested_incompatible_qos(&mut self, r: DataReaderAsync<Foo>, s: RequestedIncompatibleQosStatus) -> impl Future<Output = ()> + Send {
        cbx(self, "on_requested_incompatible_qos", hd(r.get_instance_handle()), s.total_count, s.total_count_change, s.last_policy_id, [0; 16], s.policies.iter().map(|p| (p.policy_id, p.count)).collect())
    }
    fn on_subscription_matched(&mut self, r: DataReaderAsync<Foo>, s: SubscriptionMatchedStatus) -> impl Future<Output = ()> + Send {
        cbx(self, "on_subscription_matched", hd(r.get_instance_handle()), s.total_count, s.total_count_change, s.current_count, hd(s.last_publication_handle), vec![(s.current_count_change, 0)])
    }
    fn on_sample_lost(&mut self, r: DataReaderAsync<Foo>, s: SampleLostStatus) -> impl Future<Output = ()> + Send {
        cb(self, "on_sample_lost", hd(r.get_instance_handle()), s.total_count, s.total_count_change)
    }
}

impl<Foo: 'static> DataWriterListener<Foo> for RecL {
    fn on_liveliness_lost(&mut self, w: DataWriterAsync<Foo>, s: LivelinessLostStatus) -> impl Future<Output = ()> + Send {
        cb(self, "on_liveliness_lost", hd(w.get_instance_handle()), s.total_count, s.total_count_change)
    }
    fn on_offered_deadline_missed(&mut self, w: DataWriterAsync<Foo>, s: OfferedDeadlineMissedStatus) -> impl Future<Output = ()> + Send {
        cbx(self, "on_offered_deadline_missed", hd(w.get_instance_handle()), s.total_count, s.total_count_change, 0, hd(s.last_instance_handle), vec![])
    }
    fn on_offered_incompatible_qos(&mut self, w: DataWriterAsync<Foo>, s: OfferedIncompatibleQosStatus) -> impl Future<Output = ()> + Send {
        cbx(self, "on_offered_incompatible_qos", hd(w.get_instance_handle()), s.total_count, s.total_count_change, s.last_policy_id, [0; 16], s.policies.iter().map(|p| (p.policy_id, p.count)).collect())
    }
    fn on_publication_matched(&mut self, w: DataWriterAsync<Foo>, s: PublicationMatchedStatus) -> impl Future<Output = ()> + Send {
        cbx(self, "on_publication_matched", hd(w.get_instance_handle()), s.total_count, s.total_count_change, s.current_count, hd(s.last_subscription_handle), vec![(s.current_count_change, 0)])
    }
}

impl PublisherListener for RecL {
    fn on_liveliness_lost(&mut self, w: DataWriterAsync<()>, s: LivelinessLostStatus) -> impl Future<Output = ()> + Send {
        cb(self, "on_liveliness_lost", hd(w.get_instance_handle()), s.total_count, s.total_count_change)
    }
    fn on_offered_deadline_missed(&mut self, w: DataWriterAsync<()>, s: OfferedDeadlineMissedStatus) -> impl Future<Output = ()> + Send {
        cbx(self, "on_offered_deadline_missed", hd(w.get_instance_handle()), s.total_count, s.total_count_change, 0, hd(s.last_instance_handle), vec![])
    }
    fn on_offered_incompatible_qos(&mut self, w: DataWriterAsync<()>, s: OfferedIncompatibleQosStatus) -> impl Future<Output = ()> + Send {
        cbx(self, "on_offered_incompatible_qos", hd(w.get_instance_handle()), s.total_count, s.total_count_change, s.last_policy_id, [0; 16], s.policies.iter().map(|p| (p.policy_id, p.count)).collect())
    }
    fn on_publication_matched(&mut self, w: DataWriterAsync<()>, s: PublicationMatchedStatus) -> impl Future<Output = ()> + Send {
        cbx(self, "on_publication_matched", hd(w.get_instance_handle()), s.total_count, s.total_count_change, s.current_count, hd(s.last_subscription_handle), vec![(s.current_count_change, 0)])
    }
}

impl SubscriberListener for RecL {
    fn on_data_on_readers(&mut self, s: SubscriberAsync) -> impl Future<Output = ()> + Send {
        cb(self, "on_data_on_readers", hd(s.get_instance_handle()), 0, 0)
    }
    fn on_data_available(&mut self, r: DataReaderAsync<()>) -> impl Future<Output = ()> + Send {
        cb(self, "on_data_available", hd(r.get_instance_handle()), 0, 0)
    }
    fn on_sample_rejected(&mut self, r: DataReaderAsync<()>, s: SampleRejectedStatus) -> impl Future<Output = ()> + Send {
        cbx(self, "on_sample_rejected", hd(r.get_instance_handle()), s.total_count, s.total_count_change, rej_code(s.last_reason), hd(s.last_instance_handle), vec![])
    }
    fn on_liveliness_changed(&mut self, r: DataReaderAsync<()>, s: LivelinessChangedStatus) -> impl Future<Output = ()> + Send {
        cb(self, "on_liveliness_changed", hd(r.get_instance_handle()), s.alive_count, s.alive_count_change)
    }
    fn on_requested_deadline_missed(&mut self, r: DataReaderAsync<()>, s: RequestedDeadlineMissedStatus) -> impl Future<Output = ()> + Send {
        cbx(self, "on_requested_deadline_missed", hd(r.get_instance_handle()), s.total_count, s.total_count_change, 0, hd(s.last_instance_handle), vec![])
    }
    fn on_requested_incompatible_qos(&mut self, r: DataReaderAsync<()>, s: RequestedIncompatibleQosStatus) -> impl Future<Output = ()> + Send {
        cbx(self, "on_requested_incompatible_qos", hd(r.get_instance_handle()), s.total_count, s.total_count_change, s.last_policy_id, [0; 16], s.policies.iter().map(|p| (p.policy_id, p.count)).collect())
    }
    fn on_subscription_matched(&mut self, r: DataReaderAsync<()>, s: SubscriptionMatchedStatus) -> impl Future<Output = ()> + Send {
        cbx(self, "on_subscription_matched", hd(r.get_instance_handle()), s.total_count, s.total_count_change, s.current_count, hd(s.last_publication_handle), vec![(s.current_count_change, 0)])
    }
    fn on_sample_lost(&mut self, r: DataReaderAsync<()>, s: SampleLostStatus) -> impl Future<Output = ()> + Send {
        cb(self, "on_sample_lost", hd(r.get_instance_handle()), s.total_count, s.total_count_change)
    }
}

impl TopicListener for RecL {
    fn on_inconsistent_topic(&mut self, t: TopicAsync, s: InconsistentTopicStatus) -> impl Future<Output = ()> + Send {
        cb(self, "on_inconsistent_topic", hd(t.get_instance_handle()), s.total_count, s.total_count_change)
    }
}

impl DomainParticipantListener for RecL {
    fn on_inconsistent_topic(&mut self, t: TopicAsync, s: InconsistentTopicStatus) -> impl Future<Output = ()> + Send {
        cb(self, "on_inconsistent_topic", hd(t.get_instance_handle()), s.total_count, s.total_count_change)
    }
    fn on_liveliness_lost(&mut self, w: DataWriterAsync<()>, s: LivelinessLostStatus) -> impl Future<Output = ()> + Send {
        cb(self, "on_liveliness_lost", hd(w.get_instance_handle()), s.total_count, s.total_count_change)
    }
    fn on_offered_deadline_missed(&mut self, w: DataWriterAsync<()>, s: OfferedDeadlineMissedStatus) -> impl Future<Output = ()> + Send {
        cbx(self, "on_offered_deadline_missed", hd(w.get_instance_handle()), s.total_count, s.total_count_change, 0, hd(s.last_instance_handle), vec![])
    }
    fn on_offered_incompatible_qos(&mut self, w: DataWriterAsync<()>, s: OfferedIncompatibleQosStatus) -> impl Future<Output = ()> + Send {
        cbx(self, "on_offered_incompatible_qos", hd(w.get_instance_handle()), s.total_count, s.total_count_change, s.last_policy_id, [0; 16], s.policies.iter().map(|p| (p.policy_id, p.count)).collect())
    }
    fn on_sample_lost(&mut self, r: DataReaderAsync<()>, s: SampleLostStatus) -> impl Future<Output = ()> + Send {
        cb(self, "on_sample_lost", hd(r.get_instance_handle()), s.total_count, s.total_count_change)
    }
    fn on_data_available(&mut self, r: DataReaderAsync<()>) -> impl Future<Output = ()> + Send {
        cb(self, "on_data_available", hd(r.get_instance_handle()), 0, 0)
    }
    fn on_sample_rejected(&mut self, r: DataReaderAsync<()>, s: SampleRejectedStatus) -> impl Future<Output = ()> + Send {
        cbx(self, "on_sample_rejected", hd(r.get_instance_handle()), s.total_count, s.total_count_change, rej_code(s.last_reason), hd(s.last_instance_handle), vec![])
    }
    fn on_liveliness_changed(&mut self, r: DataReaderAsync<()>, s: LivelinessChangedStatus) -> impl Future<Output = ()> + Send {
        cb(self, "on_liveliness_changed", hd(r.get_instance_handle()), s.alive_count, s.alive_count_change)
    }
    fn on_requested_deadline_missed(&mut self, r: DataReaderAsync<()>, s: RequestedDeadlineMissedStatus) -> impl Future<Output = ()> + Send {
        cbx(self, "on_requested_deadline_missed", hd(r.get_instance_handle()), s.total_count, s.total_count_change, 0, hd(s.last_instance_handle), vec![])
    }
    fn on_requested_incompatible_qos(&mut self, r: DataReaderAsync<()>, s: RequestedIncompatibleQosStatus) -> impl Future<Output = ()> + Send {
        cbx(self, "on_requested_incompatible_qos", hd(r.get_instance_handle()), s.total_count, s.total_count_change, s.last_policy_id, [0; 16], s.policies.iter().map(|p| (p.policy_id, p.count)).collect())
    }
    fn on_publication_matched(&mut self, w: DataWriterAsync<()>, s: PublicationMatchedStatus) -> impl Future<Output = ()> + Send {
        cbx(self, "on_publication_matched", hd(w.get_instance_handle()), s.total_count, s.total_count_change, s.current_count, hd(s.last_subscription_handle), vec![(s.current_count_change, 0)])
    }
    fn on_subscription_matched(&mut self, r: DataReaderAsync<()>, s: SubscriptionMatchedStatus) -> impl Future<Output = ()> + Send {
        cbx(self, "on_subscription_matched", hd(r.get_instance_handle()), s.total_count, s.total_count_change, s.current_count, hd(s.last_publication_handle), vec![(s.current_count_change, 0)])
    }
}

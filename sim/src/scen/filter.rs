//! C26: content-filtered readers present exactly the samples that pass the filter, in whatever
//! grouping the samples arrive (datagram coalescing puts several samples in one worker batch).

use super::*;
use crate::hist::{with_hist, Res};
use crate::net::{Coalesce, FaultRule};
use crate::wire;

pub fn defs() -> Vec<ScenarioDef> {
    vec![ScenarioDef {
        name: "content-filter",
        prop: "C26",
        plan: plan_c26,
        check: check_c26,
        nontrivial_rule: "at least one datagram carried two or more samples (coalesced) of which at least one fails and one passes the filter",
        quick_runs: 2500,
        thorough_runs: 200000,
        died_is_violation: true,
    }]
}

#[derive(Clone, Debug, Serialize, Deserialize, Default)]
struct P {
    /// 0: x <= p, 1: x = p, 2: name = p, 3: name <= p
    kind: u8,
    param: String,
    heal_ms: u64,
}

fn passes(p: &P, x: i32, name: &str) -> bool {
    match p.kind {
        0 => x <= p.param.parse::<i32>().unwrap_or(0),
        1 => x == p.param.parse::<i32>().unwrap_or(0),
        2 => name == p.param,
        _ => name <= p.param.as_str(),
    }
}

fn plan_c26(seed: u64, tier: &str) -> Plan {
    let mut r = Rng::derive(seed, "content-filter");
    let mut plan = base_plan("content-filter", seed, tier, &mut r);
    plan.net.fragment_size = *r.pick(&[1344usize, 4096, 65000]);
    plan.net.latency_us = r.range(10, 3000);
    let kind = r.below(4) as u8;
    let (expr, param) = match kind {
        0 => ("x <= %0", "5".to_string()),
        1 => ("x = %0", "5".to_string()),
        2 => ("name = %0", "RED".to_string()),
        _ => ("name <= %0", "M".to_string()),
    };
    let q = || Q { reliable: Some(true), history: Some(0), ..Default::default() };
    let setup = vec![
        Op::CreateParticipant { p: 0, domain: 0, tag: String::new(), announce_ms: r.range(50, 500), q: Q::default(), l: None },
        Op::CreateTopic { p: 0, id: 0, name: "T".into(), ty: Ty::Keyed, q: Q::default(), l: None },
        Op::CreatePublisher { p: 0, id: 0, q: Q::default(), l: None },
        Op::CreateWriter { id: 0, publisher: 0, topic: 0, q: Q { mbt_ms: Some(-1), ..q() }, l: None },
        Op::CreateParticipant { p: 1, domain: 0, tag: String::new(), announce_ms: r.range(50, 500), q: Q::default(), l: None },
        Op::CreateTopic { p: 1, id: 1, name: "T".into(), ty: Ty::Keyed, q: Q::default(), l: None },
        Op::CreateCft { p: 1, id: 2, name: "TF".into(), related: 1, expr: expr.into(), params: vec![param.clone()] },
        Op::CreateSubscriber { p: 1, id: 1, q: Q::default(), l: None },
        Op::CreateReader { id: 0, subscriber: 1, topic: 2, q: q(), l: None },
        Op::CreateReader { id: 1, subscriber: 1, topic: 1, q: q(), l: None },
        Op::WaitMatched { kind: "writer".into(), id: 0, n: 2, timeout_ms: 30_000 },
        Op::WaitMatched { kind: "reader".into(), id: 0, n: 1, timeout_ms: 30_000 },
        Op::WaitMatched { kind: "reader".into(), id: 1, n: 1, timeout_ms: 30_000 },
        Op::Sleep { us: 200_000 },
    ];
    plan.phases.push(phase("setup", true, vec![script(setup)]));
    if r.chance(0.85) {
        plan.net.coalesce = Some(Coalesce { hold_us: r.range(100, 3000), max: r.usize(2, 8) });
    }
    let heal_ms = 2000 + r.range(0, 3000);
    if r.chance(0.5) {
        plan.net.rules.push(FaultRule { from_ms: 0, to_ms: heal_ms, src: None, dst: None, class: wire::C_USER, drop: r.f64() * 0.3, dup: r.f64() * 0.2, jitter_us: if r.chance(0.3) { r.range(0, 10_000) } else { 0 } });
    }
    plan.net.heal_ms = Some(heal_ms);
    let n = if tier == "quick" { r.usize(3, 20) } else { r.usize(3, 50) };
    let names = ["RED", "BLUE", "A", "M", "Z", "", "RED "];
    let mut ops = vec![];
    for uid in 1..=n as u32 {
        let x = *r.pick(&[0, 4, 5, 6, 100, -1, i32::MAX, i32::MIN]);
        ops.push(Op::W { w: 0, k: WKind::Write, key: r.below(3) as u8, len: r.range(0, 12), x, name: r.pick(&names).to_string(), ts: None, h: H::None, uid });
        if r.chance(0.25) {
            ops.push(Op::Sleep { us: *r.pick(&[10u64, 1000, 20_000]) });
        }
    }
    let mut clients = vec![script(ops)];
    clients.push(daemon(vec![Op::Drain { r: 0, period_us: 5000, read_only: false }]));
    clients.push(daemon(vec![Op::Drain { r: 1, period_us: 5000, read_only: false }]));
    plan.phases.push(phase("workload", false, clients));
    let fin = vec![script(vec![Op::SleepUntil { ms: heal_ms }, Op::Mark { label: "healed".into() }, Op::AwaitCount { r: 1, n, timeout_ms: 30_000 }, Op::Sleep { us: 1_000_000 }]), daemon(vec![Op::Drain { r: 0, period_us: 5000, read_only: false }]), daemon(vec![Op::Drain { r: 1, period_us: 5000, read_only: false }])];
    plan.phases.push(phase("heal", true, fin));
    plan.max_sim_ms = 600_000;
    plan.params = serde_json::to_value(P { kind, param, heal_ms }).unwrap();
    plan
}

fn check_c26(plan: &Plan, out: &Outcome) -> Verdict {
    let mut v = Verdict::default();
    let p: P = serde_json::from_value(plan.params.clone()).unwrap_or_default();
    if let Some(pn) = out.panics.first() {
        v.violate("C26", "C26.panic", format!("C26.panic {}", stream::panic_site(&pn.msg)), format!("dust-dds task panicked: {}", pn.msg));
        return v;
    }
    if out.completed_phases != plan.phases.len() {
        v.inconclusive = true;
        return v;
    }
    let mut mixed_batches = 0u64;
    with_hist(|h| {
        if h.recs.iter().any(|r| r.phase == 0 && (r.res.err().is_some() || matches!(r.res, Res::Panic(_) | Res::Skipped(_)))) {
            v.inconclusive = true;
            return;
        }
        let empty = vec![];
        let filtered: Vec<&crate::hist::SampleRec> = h.reader_logs.get(&0).unwrap_or(&empty).iter().filter(|x| x.2.valid).map(|x| &x.2).collect();
        let control: Vec<&crate::hist::SampleRec> = h.reader_logs.get(&1).unwrap_or(&empty).iter().filter(|x| x.2.valid).map(|x| &x.2).collect();
        // safety: nothing that fails the filter
        for s in &filtered {
            if !passes(&p, s.x, &s.name) {
                v.violate("C26", "C26.failing-sample-presented", format!("C26.failing-sample-presented kind={}", p.kind), format!("the filtered reader presented seq {} (x={}, name='{}') which does not satisfy the filter (kind {} parameter '{}')", s.seq, s.x, s.name, p.kind, p.param));
            }
        }
        // exactness: control restricted to the predicate
        let want: Vec<u32> = control.iter().filter(|s| passes(&p, s.x, &s.name)).map(|s| s.seq).collect();
        let got: Vec<u32> = filtered.iter().map(|s| s.seq).collect();
        let missing: Vec<u32> = want.iter().copied().filter(|u| !got.contains(u)).collect();
        if !missing.is_empty() {
            v.violate("C26", "C26.passing-sample-lost", "C26.passing-sample-lost".into(), format!("the plain reader of the related topic received {} samples that satisfy the filter, the filtered reader never presented seq {:?} of them", want.len(), missing));
        }
        let mut g = got.clone();
        g.sort();
        let n = g.len();
        g.dedup();
        if n != g.len() {
            v.violate("C26", "C26.duplicate", "C26.duplicate".into(), "the filtered reader presented a sample twice".into());
        }
        v.probe("passing", want.len() as u64);
        v.probe("failing", (control.len() - want.len()) as u64);
    });
    // non-triviality from the wire: a datagram with >= 2 DATA submessages of which some fail and some pass
    let uid_vals: BTreeMap<u32, (i32, String)> = with_hist(|h| h.recs.iter().filter_map(|r| if let Op::W { uid, x, name, .. } = &r.op { Some((*uid, (*x, name.clone()))) } else { None }).collect());
    crate::net::with_net(|net| {
        for w in &net.wire {
            let sns: Vec<i64> = w.parsed.subs.iter().filter_map(|s| if let wire::Sub::Data { sn, writer, .. } = s { if !wire::is_builtin(*writer) { Some(*sn) } else { None } } else { None }).collect();
            if sns.len() >= 2 {
                let verdicts: Vec<bool> = sns.iter().filter_map(|sn| uid_vals.get(&(*sn as u32)).map(|(x, n)| passes(&p, *x, n))).collect();
                if verdicts.iter().any(|b| *b) && verdicts.iter().any(|b| !*b) {
                    mixed_batches += 1;
                }
            }
        }
    });
    v.probe("mixed_batches", mixed_batches);
    v.nontrivial = mixed_batches > 0;
    v
}

//! C17: participant discovery, domain isolation, lease expiry, ignore.

use super::*;
use crate::hist::{with_hist, Hd, Res};
use crate::hostile::foreign_handle;
use crate::net::FaultRule;
use crate::wire;

pub fn defs() -> Vec<ScenarioDef> {
    vec![ScenarioDef {
        name: "spdp-lease",
        prop: "C17",
        plan: plan_c17,
        check: check_c17,
        nontrivial_rule: "at least two participants shared domain id and tag while SPDP datagrams were dropped, or a foreign participant's lease expired after it fell silent, or a participant was ignored while it kept announcing",
        quick_runs: 2000,
        thorough_runs: 200000,
        died_is_violation: true,
    }]
}

#[derive(Clone, Debug, Serialize, Deserialize, Default)]
struct Part {
    p: u32,
    domain: i32,
    tag: String,
    announce_ms: u64,
}
#[derive(Clone, Debug, Serialize, Deserialize, Default)]
struct Foreign {
    id: u32,
    dst_p: u32,
    domain_in_msg: Option<i32>,
    tag: Option<String>,
    lease_ms: u64,
}
#[derive(Clone, Debug, Serialize, Deserialize, Default)]
struct P {
    parts: Vec<Part>,
    foreign: Vec<Foreign>,
    heal_ms: u64,
    poll_us: u64,
}

fn plan_c17(seed: u64, tier: &str) -> Plan {
    let mut r = Rng::derive(seed, "spdp-lease");
    let mut plan = base_plan("spdp-lease", seed, tier, &mut r);
    plan.net.fragment_size = 1344;
    plan.net.latency_us = r.range(10, 5000);
    plan.net.shared_medium = r.chance(0.5);
    let n = r.usize(2, 4) as u32;
    let mut parts = vec![];
    let mut setup = vec![];
    let domains = [0, 0, 0, 1, 200];
    let tags = ["", "", "", "x"];
    for p in 0..n {
        let part = Part { p, domain: *r.pick(&domains), tag: r.pick(&tags).to_string(), announce_ms: *r.pick(&[50u64, 100, 300, 1000, 2000]) };
        setup.push(Op::CreateParticipant { p, domain: part.domain, tag: part.tag.clone(), announce_ms: part.announce_ms, q: Q::default(), l: None });
        parts.push(part);
    }
    plan.phases.push(phase("setup", true, vec![script(setup)]));
    let heal_ms = r.range(200, 5000);
    if r.chance(0.7) {
        plan.net.rules.push(FaultRule { from_ms: 0, to_ms: heal_ms, src: None, dst: None, class: wire::C_SPDP, drop: r.f64() * 0.9, dup: r.f64() * 0.3, jitter_us: if r.chance(0.5) { r.range(0, 50_000) } else { 0 } });
    }
    plan.net.heal_ms = Some(heal_ms);
    let poll_us = 5000;
    let leases: &[u64] = if tier == "quick" { &[100, 300, 1000, 3000, 10_000] } else { &[100, 300, 1000, 3000, 10_000, 30_000, 100_000, 300_000] };
    let mut clients = vec![];
    let mut foreign = vec![];
    let mut end_ms = heal_ms + 3 * parts.iter().map(|p| p.announce_ms).max().unwrap() + 2000;
    for id in 0..r.usize(0, 3) as u32 {
        let dst = r.pick(&parts).clone();
        let lease_ms = *r.pick(leases);
        let domain_in_msg = match r.below(4) {
            0 => None,
            1 => Some(*r.pick(&domains)),
            _ => Some(dst.domain),
        };
        let tag = match r.below(4) {
            0 => None,
            1 => Some(r.pick(&tags).to_string()),
            _ => Some(dst.tag.clone()),
        };
        let every_ms = (lease_ms / r.range(2, 5)).max(1);
        let count = r.range(1, 6) as u32;
        let start_us = r.range(0, 2_000_000);
        let mut ops = vec![Op::Sleep { us: start_us }, Op::ForeignSpdp { id, dst_p: dst.p, domain: dst.domain, domain_in_msg, tag: tag.clone(), lease_ms, every_ms, count, sn0: 0 }];
        let mut t_ms = start_us / 1000 + every_ms * count as u64;
        if lease_ms <= 10_000 && r.chance(0.5) {
            // silent for longer than its lease (so it is removed), then its announcements get through again
            let silence = lease_ms + r.range(200, 2000);
            let count2 = r.range(1, 4) as u32;
            ops.push(Op::Sleep { us: silence * 1000 });
            ops.push(Op::ForeignSpdp { id, dst_p: dst.p, domain: dst.domain, domain_in_msg, tag: tag.clone(), lease_ms, every_ms, count: count2, sn0: count as i64 + r.range(0, 5) as i64 });
            t_ms += silence + every_ms * count2 as u64;
        }
        clients.push(script(ops));
        end_ms = end_ms.max(t_ms + lease_ms + 1000);
        foreign.push(Foreign { id, dst_p: dst.p, domain_in_msg, tag, lease_ms });
    }
    // ignore operations
    for _ in 0..r.usize(0, 2) {
        let who = r.pick(&parts).p;
        let (kind, target) = if !foreign.is_empty() && r.chance(0.5) {
            let f: Vec<&Foreign> = foreign.iter().filter(|f| f.dst_p == who).collect();
            if f.is_empty() {
                continue;
            }
            ("foreign", r.pick(&f).id)
        } else {
            let o = r.pick(&parts).p;
            if o == who {
                continue;
            }
            ("participant", o)
        };
        clients.push(script(vec![Op::Sleep { us: r.range(0, 3_000_000) }, Op::Ignore { p: who, what: "participant".into(), target_kind: kind.into(), target }]));
    }
    clients.insert(0, script(vec![Op::SleepUntil { ms: end_ms }, Op::Mark { label: "end".into() }]));
    for p in &parts {
        clients.push(daemon(vec![Op::WatchDiscovered { p: p.p, period_us: poll_us }]));
    }
    plan.phases.push(phase("workload", false, clients));
    plan.max_sim_ms = end_ms + 10_000;
    plan.max_steps = 8_000_000;
    plan.params = serde_json::to_value(P { parts, foreign, heal_ms, poll_us }).unwrap();
    plan
}

const POKE: u64 = 50_000_000;
const S: u64 = 5_000_000;

fn check_c17(plan: &Plan, out: &Outcome) -> Verdict {
    let mut v = Verdict::default();
    let p: P = serde_json::from_value(plan.params.clone()).unwrap_or_default();
    if let Some(pn) = out.panics.first() {
        v.violate("C17", "C17.panic", format!("C17.panic {}", stream::panic_site(&pn.msg)), format!("dust-dds task panicked: {}", pn.msg));
        return v;
    }
    if out.completed_phases != plan.phases.len() {
        v.inconclusive = true;
        return v;
    }
    let st = out.world.st.borrow();
    let handle_of: BTreeMap<u32, Hd> = st.participants.iter().map(|(i, x)| (*i, crate::world::hd(x.0.get_instance_handle()))).collect();
    let poll = p.poll_us * 1000;
    let mut lease_expired = 0u64;
    let mut same_pairs = 0u64;
    let mut ignored_announcing = 0u64;
    with_hist(|h| {
        let end_t = h.marks.iter().find(|m| m.0 == "end").map(|m| m.2).unwrap_or(out.sim_ns);
        // membership timeline of `target` as seen by observer `obs`: list of (t, present)
        let timeline = |obs: u32, target: &Hd| -> Vec<(u64, bool)> { h.discovery_log.iter().filter(|e| e.2 == obs).map(|e| (e.1, e.3.contains(target))).collect() };
        let present_at = |tl: &[(u64, bool)], t: u64| -> bool { tl.iter().rev().find(|e| e.0 <= t).map(|e| e.1).unwrap_or(false) };
        // ignore calls: (who, target handle, return time)
        let mut ignores: Vec<(u32, Hd, u64)> = vec![];
        for rec in &h.recs {
            if let (Op::Ignore { p: who, target_kind, target, .. }, Res::Unit(Ok(()))) = (&rec.op, &rec.res) {
                let th = if target_kind == "foreign" { Some(foreign_handle(*target)) } else { handle_of.get(target).copied() };
                if let Some(th) = th {
                    ignores.push((*who, th, rec.ret_t));
                }
            }
        }
        // dust participants
        for a in &p.parts {
            for b in &p.parts {
                if a.p == b.p {
                    continue;
                }
                let Some(hb) = handle_of.get(&b.p) else { continue };
                let tl = timeline(a.p, hb);
                let same = a.domain == b.domain && a.tag == b.tag;
                let ign = ignores.iter().find(|i| i.0 == a.p && i.1 == *hb).map(|i| i.2);
                if !same {
                    if let Some(e) = tl.iter().find(|e| e.1) {
                        v.violate("C17", "C17.isolation", format!("C17.isolation domain_differs={} tag_differs={}", a.domain != b.domain, a.tag != b.tag), format!("participant {} (domain {}, tag '{}') discovered participant {} (domain {}, tag '{}') at t={:.4}s", a.p, a.domain, a.tag, b.p, b.domain, b.tag, e.0 as f64 / 1e9));
                    }
                    continue;
                }
                same_pairs += 1;
                match ign {
                    None => {
                        let bound = (p.heal_ms + 3 * b.announce_ms + 1000) * 1_000_000;
                        if bound + poll < end_t && !present_at(&tl, bound + poll) {
                            v.violate("C17", "C17.discovery", "C17.discovery".into(), format!("participant {} had not discovered participant {} (same domain {} and tag '{}', announcing every {} ms) {} ms after the network healed", a.p, b.p, a.domain, a.tag, b.announce_ms, 3 * b.announce_ms + 1000));
                        }
                        // alive participants stay discovered (they keep announcing, lease 100 s)
                        if let Some(first) = tl.iter().find(|e| e.1).map(|e| e.0) {
                            if let Some(e) = tl.iter().find(|e| e.0 > first && !e.1 && e.0 > p.heal_ms * 1_000_000 + (3 * b.announce_ms + 1000) * 1_000_000) {
                                v.violate("C17", "C17.lost-live-participant", "C17.lost-live-participant".into(), format!("participant {} dropped the live participant {} at t={:.4}s", a.p, b.p, e.0 as f64 / 1e9));
                            }
                        }
                    }
                    Some(t_ig) => {
                        ignored_announcing += 1;
                        if let Some(e) = tl.iter().find(|e| e.0 > t_ig + S + poll && e.1) {
                            v.violate("C17", "C17.ignored-rediscovered", "C17.ignored-rediscovered dust".into(), format!("participant {} listed the ignored participant {} again at t={:.4}s (ignored at {:.4}s)", a.p, b.p, e.0 as f64 / 1e9, t_ig as f64 / 1e9));
                        }
                    }
                }
            }
        }
        // foreign participants
        for f in &p.foreign {
            let Some(obs) = p.parts.iter().find(|x| x.p == f.dst_p) else { continue };
            let fh = foreign_handle(f.id);
            let tl = timeline(obs.p, &fh);
            let ann: Vec<u64> = h.marks.iter().filter(|m| m.0 == format!("foreign-{}-announce", f.id)).map(|m| m.2).collect();
            if ann.is_empty() {
                continue;
            }
            let matching = f.domain_in_msg.is_none_or(|d| d == obs.domain) && f.tag.clone().unwrap_or_default() == obs.tag;
            if !matching {
                if let Some(e) = tl.iter().find(|e| e.1) {
                    v.violate("C17", "C17.isolation", format!("C17.isolation foreign domain_differs={} tag_differs={}", f.domain_in_msg.is_some_and(|d| d != obs.domain), f.tag.clone().unwrap_or_default() != obs.tag), format!("participant {} (domain {}, tag '{}') discovered a foreign participant announcing domain {:?} tag {:?} at t={:.4}s", obs.p, obs.domain, obs.tag, f.domain_in_msg, f.tag, e.0 as f64 / 1e9));
                }
                continue;
            }
            let l = f.lease_ms * 1_000_000;
            let ign = ignores.iter().find(|i| i.0 == obs.p && i.1 == fh).map(|i| i.2);
            let a_last = *ann.last().unwrap();
            // (c) listed while the lease of some accepted announcement certainly runs
            let polls = h.discovery_polls.get(&obs.p).cloned().unwrap_or_default();
            for t in polls.iter().filter(|t| **t < end_t) {
                let covered = ann.iter().any(|a| *t >= a + S + poll && *t + S < a + l);
                let after_ignore = ign.is_some_and(|ti| *t + poll + S >= ti);
                if covered && !after_ignore && !present_at(&tl, *t) {
                    v.violate("C17", "C17.lease-early", "C17.lease-early".into(), format!("participant {} did not list the foreign participant {} at t={:.4}s although it had announced itself with lease {} ms less than a lease ago (announcements at {:?} s)", obs.p, f.id, *t as f64 / 1e9, f.lease_ms, ann.iter().map(|a| *a as f64 / 1e9).collect::<Vec<_>>()));
                    break;
                }
            }
            // gone after the last lease ran out plus one worker period
            let gone_by = a_last + l + POKE + S + poll;
            if gone_by + poll < end_t {
                lease_expired += 1;
                if let Some(t) = polls.iter().find(|t| **t > gone_by && **t < end_t && present_at(&tl, **t)) {
                    v.violate("C17", "C17.lease-late", "C17.lease-late".into(), format!("participant {} still listed the foreign participant {} at t={:.4}s, {} ms after its last announcement; its lease is {} ms", obs.p, f.id, *t as f64 / 1e9, (*t - a_last) / 1_000_000, f.lease_ms));
                }
            }
            if let Some(t_ig) = ign {
                if ann.iter().any(|a| *a > t_ig) {
                    ignored_announcing += 1;
                }
                if let Some(e) = tl.iter().find(|e| e.0 > t_ig + S + poll && e.1) {
                    v.violate("C17", "C17.ignored-rediscovered", "C17.ignored-rediscovered foreign".into(), format!("participant {} listed the ignored foreign participant {} again at t={:.4}s (ignored at {:.4}s)", obs.p, f.id, e.0 as f64 / 1e9, t_ig as f64 / 1e9));
                }
            }
        }
    });
    let dropped = out.stats.get("net.drop").copied().unwrap_or(0);
    // probe: a foreign participant that was listed, dropped and listed again
    let relisted = with_hist(|h| {
        let mut n = 0u64;
        for f in &p.foreign {
            let fh = foreign_handle(f.id);
            let tl: Vec<bool> = h.discovery_log.iter().filter(|e| e.2 == f.dst_p).map(|e| e.3.contains(&fh)).collect();
            let mut seq = vec![];
            for x in tl {
                if seq.last() != Some(&x) {
                    seq.push(x);
                }
            }
            if seq.windows(3).any(|w| w == [true, false, true]) {
                n += 1;
            }
        }
        n
    });
    v.probe("rediscovered_after_expiry", relisted);
    v.probe("lease_expired", lease_expired);
    v.probe("same_domain_pairs", same_pairs);
    v.probe("ignored_while_announcing", ignored_announcing);
    v.nontrivial = (same_pairs > 0 && dropped > 0) || lease_expired > 0 || ignored_announcing > 0;
    v
}

//! C33: each status change reaches exactly one listener, the most specific enabled one.

use super::*;
use crate::hist::{with_hist, Hd, Res};

pub fn defs() -> Vec<ScenarioDef> {
    vec![ScenarioDef {
        name: "listeners",
        prop: "C33",
        plan: plan_c33,
        check: check_c33,
        nontrivial_rule: "listeners are installed on at least two levels with overlapping masks and at least three status changes of different kinds occurred",
        quick_runs: 2500,
        thorough_runs: 100000,
        died_is_violation: true,
    }]
}

// status ordinals
const OFFERED_DEADLINE: u8 = 1;
const REQUESTED_DEADLINE: u8 = 2;
const OFFERED_INCOMPAT: u8 = 3;
const REQUESTED_INCOMPAT: u8 = 4;
const SAMPLE_REJECTED: u8 = 6;
const DATA_ON_READERS: u8 = 7;
const DATA_AVAILABLE: u8 = 8;
const PUB_MATCHED: u8 = 11;
const SUB_MATCHED: u8 = 12;

#[derive(Clone, Debug, Serialize, Deserialize, Default)]
struct P {
    /// masks of the listeners installed at [participant, publisher, subscriber, writer, reader]; None = no listener
    masks: Vec<Option<Vec<u8>>>,
    /// the mask of that level is installed with a nil listener
    #[serde(default)]
    nils: Vec<bool>,
    deadline_ms: u64,
}

fn gen_mask(r: &mut Rng, kinds: &[u8]) -> Option<Vec<u8>> {
    if r.chance(0.3) {
        return None;
    }
    let m: Vec<u8> = kinds.iter().copied().filter(|_| r.chance(0.5)).collect();
    Some(m)
}

fn plan_c33(seed: u64, tier: &str) -> Plan {
    let mut r = Rng::derive(seed, "listeners");
    let mut plan = base_plan("listeners", seed, tier, &mut r);
    plan.net.fragment_size = 1344;
    plan.net.latency_us = r.range(10, 2000);
    let wk = [OFFERED_DEADLINE, OFFERED_INCOMPAT, PUB_MATCHED];
    let rk = [REQUESTED_INCOMPAT, SAMPLE_REJECTED, DATA_AVAILABLE, SUB_MATCHED, REQUESTED_DEADLINE];
    let all: Vec<u8> = wk.iter().chain(rk.iter()).copied().collect();
    let mut sk = rk.to_vec();
    sk.push(DATA_ON_READERS);
    let masks = vec![gen_mask(&mut r, &all), gen_mask(&mut r, &wk), gen_mask(&mut r, &sk), gen_mask(&mut r, &wk), gen_mask(&mut r, &rk)];
    // a mask with a nil listener (NO_LISTENER) at the publisher / subscriber / writer / reader level: the entity takes
    // the status and nobody is called
    // (not for a subscriber mask with DATA_ON_READERS: what a nil listener does with that two-step notification is
    // left open by the property)
    let nils: Vec<bool> = (0..5).map(|i| i > 0 && masks[i].as_ref().is_some_and(|m: &Vec<u8>| !m.is_empty() && !m.contains(&DATA_ON_READERS)) && r.chance(0.15)).collect();
    let l = |i: usize| masks[i].clone().map(|m| L { mask: m, nil: nils[i] });
    let deadline_ms = 200;
    let setup = vec![
        Op::CreateParticipant { p: 0, domain: 0, tag: String::new(), announce_ms: r.range(50, 500), q: Q::default(), l: l(0) },
        Op::CreateTopic { p: 0, id: 0, name: "W".into(), ty: Ty::Keyed, q: Q::default(), l: None },
        Op::CreateTopic { p: 0, id: 1, name: "R".into(), ty: Ty::Keyed, q: Q::default(), l: None },
        Op::CreatePublisher { p: 0, id: 0, q: Q::default(), l: l(1) },
        Op::CreateSubscriber { p: 0, id: 0, q: Q::default(), l: l(2) },
        Op::CreateWriter { id: 0, publisher: 0, topic: 0, q: Q { reliable: Some(false), history: Some(0), deadline_ns: Some(deadline_ms * 1_000_000), ..Default::default() }, l: l(3) },
        Op::CreateReader { id: 0, subscriber: 0, topic: 1, q: Q { reliable: Some(true), history: Some(0), max_samples: Some(2), max_spi: Some(2), ..Default::default() }, l: l(4) },
        // a second reader (same listener configuration) with a deadline, for requested-deadline-missed
        Op::CreateTopic { p: 0, id: 2, name: "D".into(), ty: Ty::Keyed, q: Q::default(), l: None },
        Op::CreateReader { id: 5, subscriber: 0, topic: 2, q: Q { reliable: Some(true), history: Some(0), deadline_ns: Some(deadline_ms * 1_000_000), ..Default::default() }, l: l(4) },
        Op::CreateParticipant { p: 1, domain: 0, tag: String::new(), announce_ms: r.range(50, 500), q: Q::default(), l: None },
        Op::CreateTopic { p: 1, id: 10, name: "W".into(), ty: Ty::Keyed, q: Q::default(), l: None },
        Op::CreateTopic { p: 1, id: 11, name: "R".into(), ty: Ty::Keyed, q: Q::default(), l: None },
        Op::CreatePublisher { p: 1, id: 1, q: Q::default(), l: None },
        Op::CreateSubscriber { p: 1, id: 1, q: Q::default(), l: None },
        Op::CreateTopic { p: 1, id: 12, name: "D".into(), ty: Ty::Keyed, q: Q::default(), l: None },
        Op::CreateWriter { id: 15, publisher: 1, topic: 12, q: Q { reliable: Some(true), history: Some(0), mbt_ms: Some(-1), deadline_ns: Some(deadline_ms * 1_000_000), ..Default::default() }, l: None },
        Op::Sleep { us: 1_500_000 },
    ];
    plan.phases.push(phase("setup", true, vec![script(setup)]));
    // the events, in a seeded order; each followed by a quiescent point
    let mut events: Vec<u8> = vec![0, 1, 2, 3, 4, 5, 6, 7];
    r.shuffle(&mut events);
    let n_ev = r.usize(3, events.len());
    let mut ops = vec![];
    let q = |ops: &mut Vec<Op>, label: &str| {
        ops.push(Op::Quiesce { quiet_ms: 500, cap_ms: 10_000 });
        ops.push(Op::Mark { label: label.into() });
    };
    let mut next = 20u32;
    let mut uid = 1u32;
    let mut remote_writer: Option<u32> = None;
    for e in events.into_iter().take(n_ev) {
        match e {
            0 => {
                // compatible remote reader appears and goes: two publication-matched changes
                ops.push(Op::CreateReader { id: next, subscriber: 1, topic: 10, q: Q { reliable: Some(false), history: Some(0), deadline_ns: Some(deadline_ms * 1_000_000), ..Default::default() }, l: None });
                q(&mut ops, "pub-matched");
                ops.push(Op::DeleteReader { id: next, via: None });
                q(&mut ops, "pub-unmatched");
                next += 1;
            }
            1 => {
                // incompatible remote reader: reliable requested, best effort offered
                ops.push(Op::CreateReader { id: next, subscriber: 1, topic: 10, q: Q { reliable: Some(true), history: Some(0), ..Default::default() }, l: None });
                q(&mut ops, "offered-incompatible");
                next += 1;
            }
            2 => {
                // compatible remote writer
                ops.push(Op::CreateWriter { id: next, publisher: 1, topic: 11, q: Q { reliable: Some(true), history: Some(0), mbt_ms: Some(-1), ..Default::default() }, l: None });
                q(&mut ops, "sub-matched");
                remote_writer = Some(next);
                next += 1;
            }
            3 => {
                // incompatible remote writer: best effort offered, reliable requested
                ops.push(Op::CreateWriter { id: next, publisher: 1, topic: 11, q: Q { reliable: Some(false), history: Some(0), ..Default::default() }, l: None });
                q(&mut ops, "requested-incompatible");
                next += 1;
            }
            4 => {
                if let Some(w) = remote_writer {
                    ops.push(Op::W { w, k: WKind::Write, key: 0, len: 4, x: uid as i32, name: String::new(), ts: None, h: H::None, uid });
                    uid += 1;
                    q(&mut ops, "data");
                    ops.push(Op::R { r: 0, k: ReadKind::Take, max: i32::MAX, m: Masks::default(), h: H::None, key: 0 });
                }
            }
            5 => {
                if let Some(w) = remote_writer {
                    // fill the reader (max_samples 2) and overflow it: exactly the samples beyond the limit are rejected
                    for _ in 0..3 {
                        ops.push(Op::W { w, k: WKind::Write, key: 0, len: 4, x: uid as i32, name: String::new(), ts: None, h: H::None, uid });
                        uid += 1;
                        q(&mut ops, "data-or-rejected");
                    }
                    ops.push(Op::R { r: 0, k: ReadKind::Take, max: i32::MAX, m: Masks::default(), h: H::None, key: 0 });
                }
            }
            7 => {
                // requested deadline: the remote writer writes an instance and then stays silent for 1.7 periods
                ops.push(Op::W { w: 15, k: WKind::Write, key: 3, len: 4, x: uid as i32, name: String::new(), ts: None, h: H::None, uid });
                uid += 1;
                ops.push(Op::Sleep { us: deadline_ms * 1700 });
                ops.push(Op::Mark { label: "requested-deadline".into() });
            }
            _ => {
                // one offered deadline miss: write, stay silent for 1.5 periods, unregister
                ops.push(Op::W { w: 0, k: WKind::Write, key: 1, len: 4, x: uid as i32, name: String::new(), ts: None, h: H::None, uid });
                uid += 1;
                ops.push(Op::Sleep { us: deadline_ms * 1500 });
                ops.push(Op::W { w: 0, k: WKind::Unregister, key: 1, len: 0, x: 0, name: String::new(), ts: None, h: H::None, uid });
                uid += 1;
                q(&mut ops, "offered-deadline");
            }
        }
    }
    if let (Some(w), true) = (remote_writer, r.chance(0.5)) {
        // the matched remote writer goes away: one more subscription-matched change
        ops.push(Op::DeleteWriter { id: w, via: None });
        q(&mut ops, "sub-unmatched");
    }
    ops.push(Op::Sleep { us: 500_000 });
    plan.phases.push(phase("events", false, vec![script(ops)]));
    plan.max_sim_ms = 600_000;
    plan.max_steps = 2_000_000;
    plan.params = serde_json::to_value(P { masks, nils, deadline_ms }).unwrap();
    plan
}

fn check_c33(plan: &Plan, out: &Outcome) -> Verdict {
    let mut v = Verdict::default();
    let p: P = serde_json::from_value(plan.params.clone()).unwrap_or_default();
    if let Some(pn) = out.panics.first() {
        v.violate("C33", "C33.panic", format!("C33.panic {}", stream::panic_site(&pn.msg)), format!("dust-dds task panicked: {}", pn.msg));
        return v;
    }
    if out.completed_phases != plan.phases.len() {
        v.inconclusive = true;
        return v;
    }
    let st = out.world.st.borrow();
    let wh: Hd = st.writers.get(&0).map(|x| x.handle).unwrap_or([0; 16]);
    let rh: Hd = st.readers.get(&0).map(|x| x.handle).unwrap_or([0; 16]);
    let sh: Hd = st.subscribers.get(&0).map(|x| crate::world::hd(x.0.get_instance_handle())).unwrap_or([0; 16]);
    // which level gets status kind k of the writer (chain: writer, publisher, participant) / reader
    let level_for = |k: u8, writer_side: bool| -> Option<&'static str> {
        let chain: [(usize, &'static str); 3] = if writer_side { [(3, "writer"), (1, "publisher"), (0, "participant")] } else { [(4, "reader"), (2, "subscriber"), (0, "participant")] };
        chain.iter().find(|(i, _)| p.masks[*i].as_ref().is_some_and(|m| m.contains(&k))).map(|(_, n)| *n)
    };
    // the most specific mask that enables the status belongs to a nil listener: nobody is called
    let silenced = |k: u8, writer_side: bool| -> bool {
        let chain: [usize; 3] = if writer_side { [3, 1, 0] } else { [4, 2, 0] };
        chain.iter().find(|i| p.masks[**i].as_ref().is_some_and(|m| m.contains(&k))).is_some_and(|i| p.nils.get(*i).copied().unwrap_or(false))
    };
    let mut kinds_seen = std::collections::BTreeSet::new();
    with_hist(|h| {
        if h.recs.iter().any(|r| r.res.err().is_some() && !matches!(r.op, Op::Quiesce { .. }) || matches!(r.res, Res::Panic(_))) {
            v.inconclusive = true;
            return;
        }
        // expected number of changes per kind from the marks
        let count_marks = |l: &str| h.marks.iter().filter(|m| m.0 == l).count() as i64;
        let exp: Vec<(&str, u8, bool, i64, bool)> = vec![
            // (callback, status kind, writer side, expected count, exact)
            ("on_publication_matched", PUB_MATCHED, true, count_marks("pub-matched") + count_marks("pub-unmatched"), true),
            ("on_offered_incompatible_qos", OFFERED_INCOMPAT, true, count_marks("offered-incompatible"), true),
            ("on_subscription_matched", SUB_MATCHED, false, count_marks("sub-matched") + count_marks("sub-unmatched"), true),
            ("on_requested_incompatible_qos", REQUESTED_INCOMPAT, false, count_marks("requested-incompatible"), true),
            ("on_offered_deadline_missed", OFFERED_DEADLINE, true, count_marks("offered-deadline"), true),
        ];
        let rh5: Hd = st.readers.get(&5).map(|x| x.handle).unwrap_or([0; 16]);
        let mut exp: Vec<(&str, u8, bool, i64, bool, Hd)> = exp.into_iter().map(|(a, b, c, d, e)| (a, b, c, d, e, if c { wh } else { rh })).collect();
        // requested deadline of the second reader: at least one miss per silent window; the count is C30's subject
        exp.push(("on_requested_deadline_missed", REQUESTED_DEADLINE, false, count_marks("requested-deadline"), false, rh5));
        for (cb, kind, wside, n, exact, target) in exp {
            let calls: Vec<&crate::hist::Callback> = h.callbacks.iter().filter(|c| c.what == cb && c.entity == target).collect();
            if n > 0 {
                kinds_seen.insert(kind);
            }
            if silenced(kind, wside) {
                if let Some(c) = calls.first() {
                    v.violate("C33", "C33.nil-listener-not-silent", format!("C33.nil-listener-not-silent {cb} got={}", c.level), format!("{cb} was called on the {} listener although the most specific mask enabling the status belongs to an entity with a nil listener, which takes the status silently (masks {:?}, nil {:?})", c.level, p.masks, p.nils));
                }
                if n > 0 {
                    v.probe("silenced_status_changes", 1);
                }
                continue;
            }
            if !exact && n > 0 && level_for(kind, wside).is_some() && calls.is_empty() {
                v.violate("C33", "C33.callback-count", format!("C33.callback-count {cb} more=false"), format!("{cb}: the status changed at least {n} time(s) but no listener was called (masks {:?})", p.masks));
            }
            let want_level = level_for(kind, wside);
            match want_level {
                None => {
                    if let Some(c) = calls.first() {
                        v.violate("C33", "C33.unexpected-callback", format!("C33.unexpected-callback {cb}"), format!("{cb} was called on the {} listener although no listener mask enables this status (masks [participant, publisher, subscriber, writer, reader] = {:?})", c.level, p.masks));
                    }
                }
                Some(lv) => {
                    if let Some(c) = calls.iter().find(|c| c.level != lv) {
                        v.violate("C33", "C33.wrong-level", format!("C33.wrong-level {cb} got={} want={lv}", c.level), format!("{cb} was delivered to the {} listener but the most specific listener enabling it is the {lv} listener (masks [participant, publisher, subscriber, writer, reader] = {:?})", c.level, p.masks));
                    }
                    let got = calls.iter().filter(|c| c.level == lv).count() as i64;
                    if exact && got != n {
                        // exactly the callbacks for lost matches are missing (those for new matches were all delivered)?
                        let unmatches = match cb {
                            "on_publication_matched" => count_marks("pub-unmatched"),
                            "on_subscription_matched" => count_marks("sub-unmatched"),
                            _ => 0,
                        };
                        let sig = if unmatches > 0 && got == n - unmatches { format!("C33.callback-count {cb} unmatch-not-delivered") } else { format!("C33.callback-count {cb} more={}", got > n) };
                        v.violate("C33", "C33.callback-count", sig, format!("{cb}: {n} status change(s) occurred ({unmatches} of them the loss of a match) but the {lv} listener was called {got} time(s) (masks {:?})", p.masks));
                    }
                }
            }
        }
        // new data
        let n_data = count_marks("data") + count_marks("data-or-rejected").min(2);
        let n_rej = (count_marks("data-or-rejected") - 2).max(0);
        if n_data > 0 {
            kinds_seen.insert(DATA_AVAILABLE);
        }
        let dor = p.masks[2].as_ref().is_some_and(|m| m.contains(&DATA_ON_READERS));
        let on_readers: Vec<&crate::hist::Callback> = h.callbacks.iter().filter(|c| c.what == "on_data_on_readers" && c.entity == sh).collect();
        let on_avail: Vec<&crate::hist::Callback> = h.callbacks.iter().filter(|c| c.what == "on_data_available" && c.entity == rh).collect();
        if dor {
            // the subscriber is told about the data of both of its readers
            let n_data = n_data + count_marks("requested-deadline");
            if on_readers.len() as i64 != n_data {
                v.violate("C33", "C33.data-on-readers-count", format!("C33.data-on-readers-count more={}", on_readers.len() as i64 > n_data), format!("{n_data} sample(s) arrived one by one but on_data_on_readers was called {} time(s) on the subscriber listener whose mask enables it (masks {:?})", on_readers.len(), p.masks));
            }
            if !on_avail.is_empty() {
                v.violate("C33", "C33.data-available-with-data-on-readers", "C33.data-available-with-data-on-readers".into(), format!("on_data_available was called on the {} listener although the subscriber listener enables DATA_ON_READERS (masks {:?})", on_avail[0].level, p.masks));
            }
        } else {
            if !on_readers.is_empty() {
                v.violate("C33", "C33.unexpected-callback", "C33.unexpected-callback on_data_on_readers".into(), format!("on_data_on_readers was called although the subscriber mask does not enable it (masks {:?})", p.masks));
            }
            match if silenced(DATA_AVAILABLE, false) { None } else { level_for(DATA_AVAILABLE, false) } {
                None => {
                    if !on_avail.is_empty() {
                        v.violate("C33", "C33.unexpected-callback", "C33.unexpected-callback on_data_available".into(), format!("on_data_available was called on the {} listener although no mask enables DATA_AVAILABLE (masks {:?})", on_avail[0].level, p.masks));
                    }
                }
                Some(lv) => {
                    if let Some(c) = on_avail.iter().find(|c| c.level != lv) {
                        v.violate("C33", "C33.wrong-level", format!("C33.wrong-level on_data_available got={} want={lv}", c.level), format!("on_data_available was delivered to the {} listener, expected the {lv} listener (masks {:?})", c.level, p.masks));
                    }
                    if on_avail.len() as i64 != n_data {
                        v.violate("C33", "C33.callback-count", format!("C33.callback-count on_data_available more={}", on_avail.len() as i64 > n_data), format!("{n_data} sample(s) arrived one by one but on_data_available was called {} time(s) (masks {:?})", on_avail.len(), p.masks));
                    }
                }
            }
        }
        // sample rejected
        let rej: Vec<&crate::hist::Callback> = h.callbacks.iter().filter(|c| c.what == "on_sample_rejected" && c.entity == rh).collect();
        if n_rej > 0 {
            kinds_seen.insert(SAMPLE_REJECTED);
        }
        match if silenced(SAMPLE_REJECTED, false) { None } else { level_for(SAMPLE_REJECTED, false) } {
            None => {
                if !rej.is_empty() {
                    v.violate("C33", "C33.unexpected-callback", "C33.unexpected-callback on_sample_rejected".into(), format!("on_sample_rejected was called on the {} listener although no mask enables it", rej[0].level));
                }
            }
            Some(lv) => {
                if let Some(c) = rej.iter().find(|c| c.level != lv) {
                    v.violate("C33", "C33.wrong-level", format!("C33.wrong-level on_sample_rejected got={} want={lv}", c.level), format!("on_sample_rejected was delivered to the {} listener, expected the {lv} listener (masks {:?})", c.level, p.masks));
                }
                if rej.len() as i64 != n_rej {
                    v.violate("C33", "C33.callback-count", format!("C33.callback-count on_sample_rejected more={}", rej.len() as i64 > n_rej), format!("{n_rej} sample(s) exceeded max_samples but on_sample_rejected was called {} time(s) (masks {:?})", rej.len(), p.masks));
                }
            }
        }
    });
    let levels = p.masks.iter().filter(|m| m.as_ref().is_some_and(|x| !x.is_empty())).count();
    v.probe("status_kinds", kinds_seen.len() as u64);
    v.nontrivial = levels >= 2 && kinds_seen.len() >= 3;
    v
}

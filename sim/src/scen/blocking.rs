//! C27: reliable KEEP_LAST writers block instead of dropping unacknowledged samples.

use super::*;
use crate::hist::{with_hist, Res, E};
use crate::net::{FaultRule, Partition};
use crate::wire;

pub fn defs() -> Vec<ScenarioDef> {
    vec![ScenarioDef {
        name: "keeplast-blocking",
        prop: "C27",
        plan: plan_c27,
        check: check_c27,
        nontrivial_rule: "at least one write found the writer's KEEP_LAST history full of unacknowledged samples (it blocked for at least 1 ms of simulated time or returned Timeout)",
        quick_runs: 2500,
        thorough_runs: 150000,
        died_is_violation: true,
    }]
}

#[derive(Clone, Debug, Serialize, Deserialize, Default)]
struct P {
    depth: u32,
    mbt_ms: i64,
    heal_ms: u64,
    bound_ms: u64,
    readers: Vec<u32>,
    late_reader: u32,
    crashed_p: Option<u32>,
}

fn plan_c27(seed: u64, tier: &str) -> Plan {
    let mut r = Rng::derive(seed, "keeplast-blocking");
    let mut plan = base_plan("keeplast-blocking", seed, tier, &mut r);
    plan.net.fragment_size = *r.pick(&[1344usize, 1344, 700, 2000, 65000]);
    plan.net.latency_us = r.range(10, 5000);
    let depth = r.range(1, 4) as u32;
    let mbt_ms: i64 = *r.pick(&[0i64, 10, 100, 100, 1000, -1]);
    let n_inst = r.range(1, 3);
    let n_rp = r.range(1, 2) as u32;
    let mut setup = vec![
        Op::CreateParticipant { p: 0, domain: 0, tag: String::new(), announce_ms: r.range(50, 1000), q: Q::default(), l: None },
        Op::CreateTopic { p: 0, id: 0, name: "T".into(), ty: Ty::Keyed, q: Q::default(), l: None },
        Op::CreatePublisher { p: 0, id: 0, q: Q::default(), l: None },
        Op::CreateWriter { id: 0, publisher: 0, topic: 0, q: Q { reliable: Some(true), durability: Some(1), history: Some(depth), mbt_ms: Some(mbt_ms), ..Default::default() }, l: None },
    ];
    let mut readers = vec![];
    for p in 1..=n_rp {
        setup.push(Op::CreateParticipant { p, domain: 0, tag: String::new(), announce_ms: r.range(50, 1000), q: Q::default(), l: None });
        setup.push(Op::CreateTopic { p, id: 0, name: "T".into(), ty: Ty::Keyed, q: Q::default(), l: None });
        setup.push(Op::CreateSubscriber { p, id: p, q: Q::default(), l: None });
        setup.push(Op::CreateReader { id: p - 1, subscriber: p, topic: 0, q: Q { reliable: Some(true), durability: Some(1), history: Some(0), ..Default::default() }, l: None });
        readers.push(p - 1);
    }
    setup.push(Op::WaitMatched { kind: "writer".into(), id: 0, n: readers.len() as i32, timeout_ms: 30_000 });
    for rd in &readers {
        setup.push(Op::WaitMatched { kind: "reader".into(), id: *rd, n: 1, timeout_ms: 30_000 });
    }
    setup.push(Op::Sleep { us: 200_000 });
    setup.push(Op::Mark { label: "setup-done".into() });
    plan.phases.push(phase("setup", true, vec![script(setup)]));

    // acknowledgements withheld for a window that starts around the end of the setup
    let t0 = r.range(0, 2000);
    let t_end = t0 + r.range(100, 4000);
    let style = r.weighted(&[4, 3, 2, 1]);
    let mut crashed_p = None;
    match style {
        0 => plan.net.partitions.push(Partition { from_ms: t0, to_ms: t_end, a: (1..=n_rp as usize).collect(), b: vec![0], class: wire::C_USER_BACK, oneway: true }),
        1 => plan.net.rules.push(FaultRule { from_ms: 0, to_ms: t_end, src: None, dst: None, class: wire::C_USER_BACK, drop: 0.3 + r.f64() * 0.6, dup: 0.0, jitter_us: r.range(0, 50_000) }),
        2 => plan.net.rules.push(FaultRule { from_ms: 0, to_ms: t_end, src: None, dst: None, class: wire::C_USER, drop: r.f64() * 0.5, dup: r.f64() * 0.2, jitter_us: r.range(0, 20_000) }),
        _ => crashed_p = Some(n_rp),
    }
    plan.net.heal_ms = Some(t_end);

    let n_clients = if r.chance(0.25) { 2 } else { 1 };
    let mut uid = 1u32;
    let mut clients = vec![];
    for c in 0..n_clients {
        let mut ops = vec![];
        if c > 0 {
            ops.push(Op::Sleep { us: r.range(0, 5000) });
        }
        let n = if tier == "quick" { r.usize(3, 14) } else { r.usize(3, 30) };
        for _ in 0..n {
            let key = r.below(n_inst) as u8;
            if r.chance(0.12) {
                // instance management in between: an unregistered / disposed instance keeps its unacknowledged samples
                let k = if r.chance(0.7) { WKind::Unregister } else { WKind::Dispose };
                ops.push(Op::W { w: 0, k, key, len: 0, x: 0, name: String::new(), ts: None, h: H::None, uid: 100_000 + uid });
            }
            ops.push(Op::W { w: 0, k: WKind::Write, key, len: r.range(0, 30), x: uid as i32, name: String::new(), ts: None, h: H::None, uid });
            uid += 1;
            if r.chance(0.5) {
                ops.push(Op::Sleep { us: *r.pick(&[0u64, 100, 2000, 30_000, 200_000]) });
            }
        }
        clients.push(script(ops));
    }
    if let Some(p) = crashed_p {
        clients.push(script(vec![Op::Sleep { us: r.range(0, 300_000) }, Op::Crash { p }]));
    }
    let period = *r.pick(&[1000u64, 5000, 20_000]);
    for rd in &readers {
        clients.push(daemon(vec![Op::Drain { r: *rd, period_us: period, read_only: false }]));
    }
    plan.phases.push(phase("workload", false, clients));

    let bound_ms = if crashed_p.is_some() { 110_000 } else { 30_000 };
    let late_reader = 10;
    let mut fin = vec![Op::SleepUntil { ms: t_end }, Op::Mark { label: "healed".into() }, Op::WaitAcks { w: 0, timeout_ms: bound_ms, freeze_check: false }, Op::Sleep { us: 500_000 }];
    fin.push(Op::CreateReader { id: late_reader, subscriber: 1, topic: 0, q: Q { reliable: Some(true), durability: Some(1), history: Some(0), ..Default::default() }, l: None });
    fin.push(Op::WaitHistorical { r: late_reader, timeout_ms: 20_000, freeze_check: false });
    fin.push(Op::Sleep { us: 1_000_000 });
    fin.push(Op::R { r: late_reader, k: ReadKind::Take, max: i32::MAX, m: Masks::default(), h: H::None, key: 0 });
    let mut clients = vec![script(fin)];
    for rd in &readers {
        clients.push(daemon(vec![Op::Drain { r: *rd, period_us: period, read_only: false }]));
    }
    plan.phases.push(phase("heal", true, clients));
    plan.max_sim_ms = t_end + 2 * bound_ms + 120_000;
    plan.max_steps = 1_500_000;
    plan.params = serde_json::to_value(P { depth, mbt_ms, heal_ms: t_end, bound_ms, readers, late_reader, crashed_p }).unwrap();
    plan
}

const POKE_NS: u64 = 50_000_000;
const SLACK_NS: u64 = 5_000_000;

fn check_c27(plan: &Plan, out: &Outcome) -> Verdict {
    let mut v = Verdict::default();
    let p: P = serde_json::from_value(plan.params.clone()).unwrap_or_default();
    if let Some(pn) = out.panics.first() {
        v.violate("C27", "C27.panic", format!("C27.panic {}", stream::panic_site(&pn.msg)), format!("dust-dds task panicked: {}", pn.msg));
        return v;
    }
    let complete = out.completed_phases == plan.phases.len();
    let mut blocked = 0;
    with_hist(|h| {
        if h.recs.iter().any(|r| r.phase == 0 && r.res.err().is_some()) {
            v.inconclusive = true;
            return;
        }
        let mut ok: Vec<(u32, u8)> = vec![];
        let mut timed_out: Vec<u32> = vec![];
        for rec in h.recs.iter().filter(|r| r.phase == 1) {
            let Op::W { uid, key, k, .. } = &rec.op else { continue };
            if *k != WKind::Write {
                // unregister / dispose: any outcome is accepted, the data samples around them are what is judged
                v.probe("instance_management_ops", 1);
                continue;
            }
            let dur = rec.ret_t.saturating_sub(rec.inv_t);
            match &rec.res {
                Res::Unit(Ok(())) => {
                    ok.push((*uid, *key));
                    if dur >= 1_000_000 {
                        blocked += 1;
                    }
                }
                Res::Unit(Err(E::Timeout)) => {
                    blocked += 1;
                    timed_out.push(*uid);
                    let mbt = if p.mbt_ms < 0 { u64::MAX } else { p.mbt_ms as u64 * 1_000_000 };
                    if p.mbt_ms < 0 {
                        v.violate("C27", "C27.timeout-with-infinite-blocking", "C27.timeout-with-infinite-blocking".into(), format!("write of seq {uid} returned Timeout although max_blocking_time is infinite"));
                    } else if dur + 1000 < mbt {
                        v.violate("C27", "C27.timeout-early", "C27.timeout-early".into(), format!("write of seq {uid} returned Timeout after {} us, before max_blocking_time {} ms", dur / 1000, p.mbt_ms));
                    } else if dur > mbt + POKE_NS + SLACK_NS {
                        v.violate("C27", "C27.timeout-late", "C27.timeout-late".into(), format!("write of seq {uid} returned Timeout after {} ms, later than max_blocking_time {} ms plus one worker period", dur / 1_000_000, p.mbt_ms));
                    }
                }
                Res::Unit(Err(e)) => {
                    v.violate("C27", "C27.write-error", format!("C27.write-error {:?}", e), format!("write of seq {uid} failed with {:?} instead of blocking / Timeout", e));
                }
                Res::Pending => {
                    // still blocked at the end of the run
                    if complete && p.mbt_ms >= 0 {
                        v.violate("C27", "C27.timeout-late", "C27.timeout-late never".into(), format!("write of seq {uid} never returned although max_blocking_time is {} ms", p.mbt_ms));
                    }
                }
                _ => {}
            }
        }
        let healed = h.marks.iter().any(|m| m.0 == "healed");
        if !complete || !healed {
            v.inconclusive = true;
            return;
        }
        // (a) every Ok write reached every reader that stayed alive
        for rd in &p.readers {
            if p.crashed_p == Some(*rd + 1) {
                continue;
            }
            let empty = vec![];
            let log = h.reader_logs.get(rd).unwrap_or(&empty);
            let got: Vec<u32> = log.iter().filter(|x| x.2.valid).map(|x| x.2.seq).collect();
            let missing: Vec<u32> = ok.iter().map(|x| x.0).filter(|u| !got.contains(u)).collect();
            if !missing.is_empty() {
                v.violate("C27", "C27.ok-write-lost", "C27.ok-write-lost".into(), format!("reader {rd} never received seq {:?} whose write returned Ok: an unacknowledged sample was discarded (KEEP_LAST({}), max_blocking_time {} ms)", missing, p.depth, p.mbt_ms));
            }
            for u in &timed_out {
                if got.contains(u) {
                    v.violate("C27", "C27.timeout-write-delivered", "C27.timeout-write-delivered".into(), format!("reader {rd} received seq {u} whose write returned Timeout"));
                }
            }
            let mut s = got.clone();
            s.sort();
            let n = s.len();
            s.dedup();
            if n != s.len() {
                v.violate("C27", "C27.duplicate", "C27.duplicate".into(), format!("reader {rd} received a sample twice"));
            }
        }
        // (b)(c) the late joiner sees what the writer holds
        if let Some(log) = h.reader_logs.get(&p.late_reader) {
            let got: Vec<(u32, u8)> = log.iter().filter(|x| x.2.valid).map(|x| (x.2.seq, x.2.key)).collect();
            for u in &timed_out {
                if got.iter().any(|g| g.0 == *u) {
                    v.violate("C27", "C27.timeout-write-stored", "C27.timeout-write-stored".into(), format!("a late TRANSIENT_LOCAL reader received seq {u} whose write returned Timeout: the sample was stored"));
                }
            }
            let mut per: BTreeMap<u8, usize> = BTreeMap::new();
            for g in &got {
                *per.entry(g.1).or_default() += 1;
            }
            for (k, n) in per {
                if n > p.depth as usize {
                    v.violate("C27", "C27.over-depth", "C27.over-depth".into(), format!("the writer holds {n} samples of instance {k} with KEEP_LAST({})", p.depth));
                }
            }
        }
        // the final wait_for_acknowledgments
        if let Some(rec) = h.recs.iter().find(|r| r.phase == 2 && matches!(r.op, Op::WaitAcks { .. })) {
            if !matches!(rec.res, Res::AckCheck { res: Ok(()), .. }) && p.crashed_p.is_none() {
                v.probe("final_wait_acks_failed", 1);
            }
        }
    });
    v.probe("blocked_writes", blocked);
    v.nontrivial = blocked > 0;
    v
}

//! C30: deadline-missed counts increase once per missed period.

use super::*;
use crate::hist::{with_hist, Res};
use crate::net::with_net;
use crate::wire::{self, Sub};

pub fn defs() -> Vec<ScenarioDef> {
    vec![ScenarioDef {
        name: "deadline",
        prop: "C30",
        plan: plan_c30,
        check: check_c30,
        nontrivial_rule: "at least one full deadline period elapsed without a sample for some instance (a miss was due) and at least one instance received samples within the period",
        quick_runs: 2500,
        thorough_runs: 150000,
        died_is_violation: true,
    }]
}

#[derive(Clone, Debug, Serialize, Deserialize, Default)]
struct P {
    deadline_ns: u64,
    end_ms: u64,
}

fn plan_c30(seed: u64, tier: &str) -> Plan {
    let mut r = Rng::derive(seed, "deadline");
    let mut plan = base_plan("deadline", seed, tier, &mut r);
    plan.net.fragment_size = 1344;
    plan.net.latency_us = r.range(10, 2000);
    plan.net.jitter_us = 0;
    let d = *r.pick(&[20_000_000u64, 50_000_000, 100_000_000, 130_000_000, 500_000_000, 2_000_000_000]);
    // listeners at entity level record every signalled increase
    let setup = vec![
        Op::CreateParticipant { p: 0, domain: 0, tag: String::new(), announce_ms: r.range(50, 1000), q: Q::default(), l: None },
        Op::CreateTopic { p: 0, id: 0, name: "T".into(), ty: Ty::Keyed, q: Q::default(), l: None },
        Op::CreatePublisher { p: 0, id: 0, q: Q::default(), l: None },
        Op::CreateWriter { id: 0, publisher: 0, topic: 0, q: Q { reliable: Some(true), history: Some(0), mbt_ms: Some(-1), deadline_ns: Some(d), ..Default::default() }, l: Some(L { mask: vec![1], nil: false }) },
        Op::CreateParticipant { p: 1, domain: 0, tag: String::new(), announce_ms: r.range(50, 1000), q: Q::default(), l: None },
        Op::CreateTopic { p: 1, id: 0, name: "T".into(), ty: Ty::Keyed, q: Q::default(), l: None },
        Op::CreateSubscriber { p: 1, id: 1, q: Q::default(), l: None },
        Op::CreateReader { id: 0, subscriber: 1, topic: 0, q: Q { reliable: Some(true), history: Some(0), deadline_ns: Some(d), ..Default::default() }, l: Some(L { mask: vec![2], nil: false }) },
        Op::WaitMatched { kind: "writer".into(), id: 0, n: 1, timeout_ms: 30_000 },
        Op::WaitMatched { kind: "reader".into(), id: 0, n: 1, timeout_ms: 30_000 },
        Op::Sleep { us: 200_000 },
    ];
    plan.phases.push(phase("setup", true, vec![script(setup)]));
    let n_inst = r.range(1, 3) as u8;
    let mut uid = 1u32;
    let mut clients = vec![];
    let du = d / 1000;
    let mut longest = 0u64;
    // burst style: one client writes all instances back to back, so that their periods run in phase and several
    // instances become overdue in the same pass of the worker's deadline check (each must still be counted and signalled)
    let burst = n_inst >= 2 && r.chance(0.4);
    if burst {
        // a slow node: timers may fire up to 2 ms late (well inside the oracle's 5 ms slack), so the worker finds
        // more than one instance overdue when it wakes up
        plan.time.timer_late_ns = *r.pick(&[0u64, 300_000, 2_000_000]);
        let mut ops = vec![Op::Sleep { us: r.range(0, du / 2 + 100) }];
        let n = if tier == "quick" { r.usize(1, 6) } else { r.usize(1, 12) };
        let mut total = 0u64;
        for _ in 0..n {
            for key in 0..n_inst {
                // (now and then one instance sits a round out: it then misses while the others do not)
                if r.chance(0.15) {
                    continue;
                }
                ops.push(Op::W { w: 0, k: WKind::Write, key, len: r.range(0, 16), x: uid as i32, name: String::new(), ts: None, h: H::None, uid: uid + 1000 * key as u32 });
                uid += 1;
            }
            let gap = match r.below(6) {
                0 => du / 2,
                1 => du * 3 / 2,
                2 => du * 32 / 10,
                3 => du * 21 / 10,
                4 => du + 1000,
                _ => r.range(du / 10 + 1, du * 8 / 10),
            };
            total += gap;
            ops.push(Op::Sleep { us: gap });
        }
        longest = total;
        clients.push(script(ops));
    }
    for key in 0..(if burst { 0 } else { n_inst }) {
        let mut ops = vec![Op::Sleep { us: r.range(0, du / 2 + 100) }];
        let n = if tier == "quick" { r.usize(1, 8) } else { r.usize(1, 16) };
        let style = r.below(3);
        let mut total = 0u64;
        for _ in 0..n {
            ops.push(Op::W { w: 0, k: WKind::Write, key, len: r.range(0, 16), x: uid as i32, name: String::new(), ts: None, h: H::None, uid: uid + 1000 * key as u32 });
            uid += 1;
            let gap = match style {
                0 => r.range(du / 10 + 1, du * 8 / 10), // always within the period
                _ => match r.below(6) {
                    0 => du / 2,
                    1 => du * 3 / 2,
                    2 => du * 32 / 10,
                    3 => du.saturating_sub(1000),
                    4 => du + 1000,
                    _ => r.range(du / 10 + 1, du * 8 / 10),
                },
            };
            total += gap;
            ops.push(Op::Sleep { us: gap });
        }
        longest = longest.max(total);
        clients.push(script(ops));
    }
    // status reads at seeded times
    let mut sops = vec![];
    for _ in 0..r.usize(0, 4) {
        sops.push(Op::Sleep { us: r.range(1, longest / 3 + 1000) });
        sops.push(Op::Status { kind: "writer".into(), id: 0, what: "deadline".into() });
    }
    clients.push(script(sops));
    clients.push(daemon(vec![Op::Drain { r: 0, period_us: 10_000, read_only: false }]));
    plan.phases.push(phase("workload", false, clients));
    let tail_us = r.range(0, 3 * du);
    plan.phases.push(phase("tail", true, vec![script(vec![Op::Sleep { us: tail_us }, Op::Mark { label: "end".into() }, Op::Status { kind: "writer".into(), id: 0, what: "deadline".into() }, Op::Sleep { us: 100_000 }])]));
    plan.max_sim_ms = 600_000;
    plan.max_steps = 2_000_000;
    plan.params = serde_json::to_value(P { deadline_ns: d, end_ms: 0 }).unwrap();
    plan
}

const POKE: u64 = 50_000_000;
const S: u64 = 5_000_000;

/// number of misses due by time x for one instance with sample times `ts` (sorted)
fn due(ts: &[u64], d: u64, x: u64, tol: i64) -> u64 {
    let mut n = 0;
    for (i, t) in ts.iter().enumerate() {
        let next = ts.get(i + 1).copied().unwrap_or(u64::MAX);
        // the window ends at the next sample (shifted by the tolerance)
        let end = if next == u64::MAX { x } else { x.min((next as i64 + tol).max(0) as u64) };
        if end > *t {
            let mut k = (end - *t) / d;
            // a miss exactly at the boundary counts only in the permissive direction
            if tol < 0 && k > 0 && (end - *t) % d == 0 {
                k -= 0;
            }
            n += k;
        }
    }
    n
}

fn check_c30(plan: &Plan, out: &Outcome) -> Verdict {
    let mut v = Verdict::default();
    let p: P = serde_json::from_value(plan.params.clone()).unwrap_or_default();
    if let Some(pn) = out.panics.first() {
        v.violate("C30", "C30.panic", format!("C30.panic {}", stream::panic_site(&pn.msg)), format!("dust-dds task panicked: {}", pn.msg));
        return v;
    }
    if out.completed_phases != plan.phases.len() {
        v.inconclusive = true;
        return v;
    }
    let d = p.deadline_ns;
    let st = out.world.st.borrow();
    let rnode = st.readers.get(&0).and_then(|r| st.participants.get(&r.p)).map(|x| x.1).unwrap_or(1);
    let mut due_any = false;
    let mut within_any = false;
    with_hist(|h| {
        if h.recs.iter().any(|r| r.phase == 0 && r.res.err().is_some()) {
            v.inconclusive = true;
            return;
        }
        // writer side: handling time of each Ok write, per instance
        let mut wtimes: BTreeMap<u8, Vec<u64>> = BTreeMap::new();
        let mut sn_key: BTreeMap<i64, u8> = BTreeMap::new();
        let mut oks: Vec<(u64, u8)> = vec![];
        for rec in h.recs.iter().filter(|r| r.phase == 1) {
            if let (Op::W { key, .. }, Res::Unit(Ok(()))) = (&rec.op, &rec.res) {
                wtimes.entry(*key).or_default().push(rec.ret_t);
                oks.push((rec.ret_t, *key));
            }
        }
        // sequence numbers follow the order in which the worker handled the writes = order of return
        oks.sort();
        for (i, (_, k)) in oks.iter().enumerate() {
            sn_key.insert(i as i64 + 1, *k);
        }
        for l in wtimes.values_mut() {
            l.sort();
            if l.windows(2).any(|w| w[1] - w[0] < d - d / 5) {
                within_any = true;
            }
        }
        // reader side: arrival of each sample at the reader's node
        let mut rtimes: BTreeMap<u8, Vec<u64>> = BTreeMap::new();
        with_net(|net| {
            let mut seen: std::collections::BTreeSet<i64> = Default::default();
            for w in net.wire.iter().filter(|w| w.dst == rnode && w.delivered_step.is_some()) {
                for s in &w.parsed.subs {
                    if let Sub::Data { writer, sn, .. } = s {
                        if !wire::is_builtin(*writer) && seen.insert(*sn) {
                            if let Some(k) = sn_key.get(sn) {
                                rtimes.entry(*k).or_default().push(w.t_arr.unwrap());
                            }
                        }
                    }
                }
            }
        });
        for l in rtimes.values_mut() {
            l.sort();
        }
        let total_due = |times: &BTreeMap<u8, Vec<u64>>, x: u64, tol: i64| -> u64 { times.values().map(|l| due(l, d, x, tol)).sum() };
        let end_t = out.sim_ns;
        if total_due(&wtimes, end_t.saturating_sub(POKE + S), -(S as i64)) > 0 {
            due_any = true;
        }
        // observations: (time, total, side)
        let mut check_obs = |side: &str, times: &BTreeMap<u8, Vec<u64>>, t: u64, total: i32, how: &str, v: &mut Verdict| {
            let lo = total_due(times, t.saturating_sub(POKE + S), -(S as i64));
            let hi = total_due(times, t + S, S as i64);
            if (total as u64) < lo {
                v.violate("C30", &format!("C30.{side}-undercount"), format!("C30.{side}-undercount"), format!("{side} deadline-missed total_count {total} observed through {how} at t={:.4}s but {lo} periods of {} ms had fully elapsed without a sample more than one worker period earlier", t as f64 / 1e9, d / 1_000_000));
            } else if (total as u64) > hi {
                let never_due = hi == 0;
                v.violate("C30", &format!("C30.{side}-overcount"), format!("C30.{side}-overcount never_due={never_due}"), format!("{side} deadline-missed total_count {total} observed through {how} at t={:.4}s but only {hi} periods of {} ms can have elapsed without a sample", t as f64 / 1e9, d / 1_000_000));
            }
        };
        for rec in h.recs.iter().filter(|r| matches!(&r.op, Op::Status { what, .. } if what == "deadline")) {
            if let Res::Count(Ok(c)) = &rec.res {
                check_obs("offered", &wtimes, rec.ret_t, c.total, "get_offered_deadline_missed_status", &mut v);
            }
        }
        let mut signalled_w = 0;
        let mut signalled_r = 0;
        let mut last_w = 0;
        let mut last_r = 0;
        for c in &h.callbacks {
            match c.what {
                "on_offered_deadline_missed" => {
                    check_obs("offered", &wtimes, c.t, c.total, "the writer listener", &mut v);
                    signalled_w += 1;
                    last_w = last_w.max(c.total);
                }
                "on_requested_deadline_missed" => {
                    check_obs("requested", &rtimes, c.t, c.total, "the reader listener", &mut v);
                    signalled_r += 1;
                    last_r = last_r.max(c.total);
                }
                _ => {}
            }
        }
        // every increase is signalled: with an entity listener enabled, one callback per increment
        if signalled_w != last_w {
            v.violate("C30", "C30.offered-signal-count", "C30.offered-signal-count".into(), format!("the writer listener was called {signalled_w} times but total_count reached {last_w}"));
        }
        if signalled_r != last_r {
            v.violate("C30", "C30.requested-signal-count", "C30.requested-signal-count".into(), format!("the reader listener was called {signalled_r} times but total_count reached {last_r}"));
        }
        // final: the misses that were due long ago must have been counted
        let lo_w = total_due(&wtimes, end_t.saturating_sub(POKE + S + 100_000_000), -(S as i64));
        if (last_w as u64) < lo_w {
            v.violate("C30", "C30.offered-undercount", "C30.offered-undercount".into(), format!("offered deadline-missed total_count reached {last_w} but {lo_w} misses were due"));
        }
        let lo_r = total_due(&rtimes, end_t.saturating_sub(POKE + S + 100_000_000), -(S as i64));
        if (last_r as u64) < lo_r {
            v.violate("C30", "C30.requested-undercount", "C30.requested-undercount".into(), format!("requested deadline-missed total_count reached {last_r} but {lo_r} misses were due"));
        }
        v.probe("offered_misses", last_w as u64);
        v.probe("requested_misses", last_r as u64);
    });
    v.nontrivial = due_any && within_any;
    v
}

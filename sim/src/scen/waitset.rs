//! C32: a StatusCondition's trigger value follows the model and WaitSet::wait wakes whenever an
//! attached condition is or becomes true, for every interleaving of status changes, mask changes,
//! status reads and waits.

use super::*;
use crate::hist::{with_hist, Rec, Res, E};

pub fn defs() -> Vec<ScenarioDef> {
    vec![ScenarioDef {
        name: "waitset",
        prop: "C32",
        plan: plan_c32,
        check: check_c32,
        nontrivial_rule: "at least one wait was in progress when the model trigger value of an attached condition turned true (status change or mask change racing the wait), and the trigger value was observed true and false at least once each",
        quick_runs: 2500,
        thorough_runs: 300000,
        died_is_violation: true,
    }]
}

// conditions: 0 = writer w0, 1 = reader r0. status ordinals: 8 DataAvailable, 11 PublicationMatched, 12 SubscriptionMatched
const CONDS: [(&str, u32); 2] = [("writer", 0), ("reader", 0)];

fn plan_c32(seed: u64, tier: &str) -> Plan {
    let mut r = Rng::derive(seed, "waitset");
    let mut plan = base_plan("waitset", seed, tier, &mut r);
    plan.net.fragment_size = 1344;
    plan.net.latency_us = r.range(10, 3000);
    let q = || Q { reliable: Some(true), history: Some(0), ..Default::default() };
    let setup = vec![
        Op::CreateParticipant { p: 0, domain: 0, tag: String::new(), announce_ms: r.range(50, 500), q: Q::default(), l: None },
        Op::CreateTopic { p: 0, id: 0, name: "T".into(), ty: Ty::Keyed, q: Q::default(), l: None },
        Op::CreatePublisher { p: 0, id: 0, q: Q::default(), l: None },
        Op::CreateParticipant { p: 1, domain: 0, tag: String::new(), announce_ms: r.range(50, 500), q: Q::default(), l: None },
        Op::CreateTopic { p: 1, id: 1, name: "T".into(), ty: Ty::Keyed, q: Q::default(), l: None },
        Op::CreateSubscriber { p: 1, id: 1, q: Q::default(), l: None },
        Op::CreateWriter { id: 0, publisher: 0, topic: 0, q: Q { mbt_ms: Some(-1), ..q() }, l: None },
        Op::CreateReader { id: 0, subscriber: 1, topic: 1, q: q(), l: None },
        Op::WaitMatched { kind: "writer".into(), id: 0, n: 1, timeout_ms: 30_000 },
        Op::WaitMatched { kind: "reader".into(), id: 0, n: 1, timeout_ms: 30_000 },
        Op::Quiesce { quiet_ms: 500, cap_ms: 10_000 },
        // read the statuses once so that the model starts from "nothing changed"
        Op::Status { kind: "writer".into(), id: 0, what: "matched".into() },
        Op::Status { kind: "reader".into(), id: 0, what: "matched".into() },
    ];
    plan.phases.push(phase("setup", true, vec![script(setup)]));
    let n_steps = if tier == "quick" { r.usize(3, 10) } else { r.usize(3, 20) };
    let mut ops = vec![];
    let mut uid = 1u32;
    let mut remote_readers: Vec<u32> = vec![];
    let mut remote_writers: Vec<u32> = vec![];
    let mut next = 10u32;
    let observe = |ops: &mut Vec<Op>| {
        ops.push(Op::Quiesce { quiet_ms: 500, cap_ms: 10_000 });
        ops.push(Op::Mark { label: "observe".into() });
        for (k, i) in CONDS {
            ops.push(Op::Trigger { kind: k.into(), id: i });
        }
    };
    observe(&mut ops);
    for _ in 0..n_steps {
        match r.weighted(&[3, 2, 2, 2, 3, 2, 2, 4]) {
            0 => {
                ops.push(Op::W { w: 0, k: WKind::Write, key: r.below(2) as u8, len: 4, x: uid as i32, name: String::new(), ts: None, h: H::None, uid });
                uid += 1;
            }
            1 => {
                ops.push(Op::CreateReader { id: next, subscriber: 1, topic: 1, q: q(), l: None });
                remote_readers.push(next);
                next += 1;
            }
            2 => {
                if let Some(id) = remote_readers.pop() {
                    ops.push(Op::DeleteReader { id, via: None });
                } else {
                    continue;
                }
            }
            3 => {
                if remote_writers.is_empty() || r.chance(0.5) {
                    ops.push(Op::CreateWriter { id: next, publisher: 0, topic: 0, q: Q { mbt_ms: Some(-1), ..q() }, l: None });
                    remote_writers.push(next);
                    next += 1;
                } else {
                    let id = remote_writers.pop().unwrap();
                    ops.push(Op::DeleteWriter { id, via: None });
                }
            }
            4 => ops.push(Op::R { r: 0, k: if r.chance(0.5) { ReadKind::Take } else { ReadKind::Read }, max: i32::MAX, m: Masks::default(), h: H::None, key: 0 }),
            5 => ops.push(Op::Status { kind: "writer".into(), id: 0, what: "matched".into() }),
            6 => ops.push(Op::Status { kind: "reader".into(), id: 0, what: "matched".into() }),
            _ => {
                let c = r.below(2) as usize;
                let all: &[u8] = if c == 0 { &[11] } else { &[8, 12] };
                let mut mask: Vec<u8> = all.iter().copied().filter(|_| r.chance(0.5)).collect();
                if r.chance(0.2) {
                    mask = all.to_vec();
                }
                ops.push(Op::SetEnabledStatuses { kind: CONDS[c].0.into(), id: CONDS[c].1, mask });
            }
        }
        observe(&mut ops);
    }
    ops.push(Op::Mark { label: "end".into() });
    let mut clients = vec![script(ops)];
    for _ in 0..r.usize(1, 2) {
        let mut w = vec![];
        let conds: Vec<(String, u32)> = match r.below(3) {
            0 => vec![("writer".into(), 0)],
            1 => vec![("reader".into(), 0)],
            _ => vec![("writer".into(), 0), ("reader".into(), 0)],
        };
        for _ in 0..(n_steps * 2 + 4) {
            w.push(Op::WaitSet { conds: conds.clone(), timeout_ms: 3000 });
            w.push(Op::Sleep { us: *r.pick(&[0u64, 100, 10_000, 300_000]) });
        }
        clients.push(daemon(w));
    }
    plan.phases.push(phase("steps", false, clients));
    plan.max_sim_ms = 600_000;
    plan.max_steps = 3_000_000;
    plan
}

#[derive(Clone, Default)]
struct CondM {
    changed: std::collections::BTreeSet<u8>,
    enabled: std::collections::BTreeSet<u8>,
}
impl CondM {
    fn trigger(&self) -> bool {
        self.changed.intersection(&self.enabled).next().is_some()
    }
}

fn check_c32(plan: &Plan, out: &Outcome) -> Verdict {
    let mut v = Verdict::default();
    if let Some(pn) = out.panics.first() {
        v.violate("C32", "C32.panic", format!("C32.panic {}", stream::panic_site(&pn.msg)), format!("dust-dds task panicked: {}", pn.msg));
        return v;
    }
    if out.completed_phases != plan.phases.len() {
        v.inconclusive = true;
        return v;
    }
    let mut saw_true = false;
    let mut saw_false = false;
    let mut raced = false;
    with_hist(|h| {
        if h.recs.iter().any(|r| r.phase == 0 && (r.res.err().is_some() || matches!(r.res, Res::Panic(_)))) {
            v.inconclusive = true;
            return;
        }
        let driver: Vec<&Rec> = h.recs.iter().filter(|r| r.phase == 1 && r.client == 0).collect();
        if driver.iter().any(|r| matches!(r.res, Res::Panic(_)) || (r.res.err().is_some() && !matches!(r.op, Op::R { .. }))) {
            v.inconclusive = true;
            return;
        }
        let all: std::collections::BTreeSet<u8> = (0..13).collect();
        let mut m = [CondM { enabled: all.clone(), ..Default::default() }, CondM { enabled: all.clone(), ..Default::default() }];
        // timeline of "certainly true" intervals per condition: (from, to)
        let mut sure_true: [Vec<(u64, u64)>; 2] = [vec![], vec![]];
        let mut since: [Option<u64>; 2] = [None, None];
        let mut raise_times: [Vec<u64>; 2] = [vec![], vec![]];
        let mut n_remote_readers = 0;
        let mut n_remote_writers = 0;
        let mut i = 0;
        while i < driver.len() {
            let rec = driver[i];
            i += 1;
            // the time from which the effect of this step is certain: the end of the quiesce that follows
            let settle = driver[i..].iter().find(|r| matches!(r.op, Op::Mark { .. })).map(|r| r.ret_t).unwrap_or(rec.ret_t);
            let mut touched: Vec<usize> = vec![];
            match &rec.op {
                Op::W { .. } => {
                    m[1].changed.insert(8);
                    touched.push(1);
                }
                Op::CreateReader { .. } => {
                    n_remote_readers += 1;
                    m[0].changed.insert(11);
                    touched.push(0);
                }
                Op::DeleteReader { .. } => {
                    n_remote_readers -= 1;
                    m[0].changed.insert(11);
                    touched.push(0);
                }
                Op::CreateWriter { .. } => {
                    n_remote_writers += 1;
                    m[1].changed.insert(12);
                    touched.push(1);
                }
                Op::DeleteWriter { .. } => {
                    n_remote_writers -= 1;
                    m[1].changed.insert(12);
                    touched.push(1);
                }
                Op::R { .. } => {
                    m[1].changed.remove(&8);
                    touched.push(1);
                }
                Op::Status { kind, .. } => {
                    if kind == "writer" {
                        m[0].changed.remove(&11);
                        touched.push(0);
                    } else {
                        m[1].changed.remove(&12);
                        touched.push(1);
                    }
                }
                Op::SetEnabledStatuses { kind, mask, .. } => {
                    let c = if kind == "writer" { 0 } else { 1 };
                    m[c].enabled = mask.iter().copied().collect();
                    touched.push(c);
                }
                Op::Trigger { kind, .. } => {
                    let c = if kind == "writer" { 0 } else { 1 };
                    if let Res::Bool(Ok(b)) = &rec.res {
                        if *b { saw_true = true } else { saw_false = true }
                        let want = m[c].trigger();
                        if *b != want {
                            v.violate("C32", "C32.trigger-value", format!("C32.trigger-value {kind} got={b}"), format!("get_trigger_value of the {kind} condition is {b} at t={:.3}s but the model says {want}: changed statuses {:?}, enabled statuses {:?}", rec.ret_t as f64 / 1e9, m[c].changed, m[c].enabled));
                            // resynchronise: follow the implementation
                            if *b {
                                // unknown which status: stop judging this run further
                                return;
                            }
                        }
                    }
                }
                _ => {}
            }
            let _ = (n_remote_readers, n_remote_writers);
            for c in touched {
                // the condition's value is uncertain from the invocation until the step has settled
                if let Some(from) = since[c].take() {
                    if rec.inv_t > from {
                        sure_true[c].push((from, rec.inv_t));
                    }
                }
                if m[c].trigger() {
                    since[c] = Some(settle);
                    raise_times[c].push(rec.inv_t);
                }
            }
        }
        let end = h.marks.iter().find(|x| x.0 == "end").map(|x| x.2).unwrap_or(out.sim_ns);
        for c in 0..2 {
            if let Some(from) = since[c].take() {
                if end > from {
                    sure_true[c].push((from, end));
                }
            }
        }
        // waits
        for rec in h.recs.iter().filter(|r| r.phase == 1 && r.client > 0) {
            let Op::WaitSet { conds, timeout_ms } = &rec.op else { continue };
            let attached: Vec<usize> = conds.iter().map(|(k, _)| if k == "writer" { 0 } else { 1 }).collect();
            let ret_t = if rec.ret_t == u64::MAX { out.sim_ns } else { rec.ret_t };
            // did a certainly-true interval start while this wait was in progress?
            for c in &attached {
                if raise_times[*c].iter().any(|a| *a > rec.inv_t && *a < ret_t) {
                    raced = true;
                }
            }
            match &rec.res {
                Res::Conds(Err(E::SimTimeout)) | Res::Pending => {
                    // a wake-up was due if an attached condition was certainly true for at least 1 s inside the wait
                    for c in &attached {
                        for (a, b) in &sure_true[*c] {
                            let lo = (*a).max(rec.inv_t);
                            let hi = (*b).min(ret_t);
                            if hi > lo && hi - lo >= 1_000_000_000 {
                                let by_mask = true;
                                let _ = by_mask;
                                v.violate(
                                    "C32",
                                    "C32.missed-wakeup",
                                    format!("C32.missed-wakeup {}", CONDS[*c].0),
                                    format!("WaitSet::wait on {:?} started at t={:.3}s did not return within {timeout_ms} ms although the {} condition was true from t={:.3}s to t={:.3}s", conds, rec.inv_t as f64 / 1e9, CONDS[*c].0, *a as f64 / 1e9, *b as f64 / 1e9),
                                );
                            }
                        }
                    }
                }
                Res::Conds(Ok(l)) => {
                    // the returned list holds every triggered attached condition: compare when the model is stable
                    let stable = |c: usize| sure_true[c].iter().any(|(a, b)| *a + 100_000_000 < rec.inv_t && ret_t + 100_000_000 < *b);
                    let n_sure = attached.iter().filter(|c| stable(**c)).count();
                    if l.len() < n_sure {
                        v.violate("C32", "C32.incomplete-list", "C32.incomplete-list".into(), format!("WaitSet::wait on {:?} returned {} condition(s) at t={:.3}s but {} attached conditions were true throughout the call", conds, l.len(), ret_t as f64 / 1e9, n_sure));
                    }
                    if l.is_empty() {
                        v.violate("C32", "C32.empty-return", "C32.empty-return".into(), format!("WaitSet::wait returned Ok with no triggered condition at t={:.3}s", ret_t as f64 / 1e9));
                    }
                }
                Res::Conds(Err(e)) => {
                    v.violate("C32", "C32.wait-error", format!("C32.wait-error {:?}", e), format!("WaitSet::wait failed with {:?}", e));
                }
                _ => {}
            }
        }
    });
    v.probe("trigger_true_seen", saw_true as u64);
    v.probe("trigger_false_seen", saw_false as u64);
    v.probe("raced_waits", raced as u64);
    v.nontrivial = raced && saw_true && saw_false;
    v
}

//! C31: the DDS worker never oversleeps its periodic duties.

use super::*;
use crate::core::{with_core, Class};
use crate::hist::{with_hist, Res, E};
use crate::net::Partition;
use crate::wire;

pub fn defs() -> Vec<ScenarioDef> {
    vec![ScenarioDef {
        name: "worker-sleep",
        prop: "C31",
        plan: plan_c31,
        check: check_c31,
        nontrivial_rule: "at least one timed duty (deadline, lease, lifespan or blocked write expiry) fell due during the run, i.e. the worker requested at least one sleep shorter than the poke period",
        quick_runs: 2500,
        thorough_runs: 150000,
        died_is_violation: true,
    }]
}

#[derive(Clone, Debug, Serialize, Deserialize, Default)]
struct P {
    mbt_ms: i64,
}

fn plan_c31(seed: u64, tier: &str) -> Plan {
    let mut r = Rng::derive(seed, "worker-sleep");
    let mut plan = base_plan("worker-sleep", seed, tier, &mut r);
    plan.net.fragment_size = 1344;
    plan.net.latency_us = r.range(10, 3000);
    // timings placed on multiples of the poke period and just around them
    let pick_ns = |r: &mut Rng| -> u64 {
        let base = *r.pick(&[1_000_000u64, 10_000_000, 49_000_000, 50_000_000, 51_000_000, 100_000_000, 150_000_000, 500_000_000]);
        match r.below(3) {
            0 => base,
            1 => base + r.range(0, 1000),
            _ => base.saturating_sub(r.range(0, 1000)).max(1000),
        }
    };
    let deadline = if r.chance(0.7) { Some(pick_ns(&mut r).max(20_000_000)) } else { None };
    let lifespan = if r.chance(0.5) { Some(pick_ns(&mut r)) } else { None };
    let mbt_ms: i64 = *r.pick(&[0i64, 1, 10, 50, 100, 120]);
    let setup = vec![
        Op::CreateParticipant { p: 0, domain: 0, tag: String::new(), announce_ms: *r.pick(&[50u64, 100, 1000]), q: Q::default(), l: None },
        Op::CreateTopic { p: 0, id: 0, name: "T".into(), ty: Ty::Keyed, q: Q::default(), l: None },
        Op::CreatePublisher { p: 0, id: 0, q: Q::default(), l: None },
        Op::CreateWriter { id: 0, publisher: 0, topic: 0, q: Q { reliable: Some(true), durability: Some(1), history: Some(1), mbt_ms: Some(mbt_ms), deadline_ns: deadline, lifespan_ns: lifespan, ..Default::default() }, l: None },
        Op::CreateParticipant { p: 1, domain: 0, tag: String::new(), announce_ms: *r.pick(&[50u64, 100, 1000]), q: Q::default(), l: None },
        Op::CreateTopic { p: 1, id: 0, name: "T".into(), ty: Ty::Keyed, q: Q::default(), l: None },
        Op::CreateSubscriber { p: 1, id: 1, q: Q::default(), l: None },
        Op::CreateReader { id: 0, subscriber: 1, topic: 0, q: Q { reliable: Some(true), durability: Some(1), history: Some(0), deadline_ns: deadline, ..Default::default() }, l: None },
        Op::WaitMatched { kind: "writer".into(), id: 0, n: 1, timeout_ms: 30_000 },
        Op::WaitMatched { kind: "reader".into(), id: 0, n: 1, timeout_ms: 30_000 },
        Op::Mark { label: "setup-done".into() },
    ];
    plan.phases.push(phase("setup", true, vec![script(setup)]));
    if r.chance(0.6) {
        let a = r.range(0, 1500);
        plan.net.partitions.push(Partition { from_ms: a, to_ms: a + r.range(50, 1500), a: vec![1], b: vec![0], class: wire::C_USER_BACK, oneway: true });
    }
    let mut clients = vec![];
    let mut ops = vec![];
    let mut uid = 1;
    let n = if tier == "quick" { r.usize(2, 12) } else { r.usize(2, 30) };
    for _ in 0..n {
        let back = if lifespan.is_some() && r.chance(0.5) { Some(-(r.range(0, 2 * lifespan.unwrap()) as i64)) } else { None };
        ops.push(Op::W { w: 0, k: WKind::Write, key: r.below(2) as u8, len: r.range(0, 16), x: uid as i32, name: String::new(), ts: back, h: H::None, uid });
        uid += 1;
        ops.push(Op::Sleep { us: *r.pick(&[0u64, 1000, 49_000, 50_000, 51_000, 100_000, 230_000]) });
    }
    clients.push(script(ops));
    // foreign participants with short leases, some shorter than one worker iteration
    for id in 0..r.usize(0, 2) as u32 {
        let lease_ms = *r.pick(&[1u64, 10, 49, 50, 51, 100, 500]);
        clients.push(script(vec![Op::Sleep { us: r.range(0, 500_000) }, Op::ForeignSpdp { id, dst_p: r.below(2) as u32, domain: 0, domain_in_msg: Some(0), tag: None, lease_ms, every_ms: (lease_ms / 2).max(1), count: r.range(1, 4) as u32, sn0: 0 }]));
    }
    clients.push(daemon(vec![Op::Drain { r: 0, period_us: 7000, read_only: false }]));
    plan.phases.push(phase("workload", false, clients));
    // a quiet tail: no API calls, no traffic except the periodic one: only the timer wakes the worker
    plan.phases.push(phase("quiet", true, vec![script(vec![Op::Sleep { us: r.range(300_000, 3_000_000) }, Op::Mark { label: "end".into() }])]));
    plan.max_sim_ms = 600_000;
    plan.max_steps = 2_000_000;
    plan.params = serde_json::to_value(P { mbt_ms }).unwrap();
    plan
}

const POKE: u64 = 50_000_000;
const S: u64 = 5_000_000;

fn check_c31(plan: &Plan, out: &Outcome) -> Verdict {
    let mut v = Verdict::default();
    let p: P = serde_json::from_value(plan.params.clone()).unwrap_or_default();
    if let Some(pn) = out.panics.first() {
        v.violate("C31", "C31.panic", format!("C31.panic {}", stream::panic_site(&pn.msg)), format!("dust-dds task panicked: {}", pn.msg));
        return v;
    }
    if out.completed_phases != plan.phases.len() {
        v.inconclusive = true;
        return v;
    }
    let (delays, polls) = with_core(|c| (c.delays.clone(), c.worker_polls.clone()));
    let (t0, t1) = with_hist(|h| (h.marks.iter().find(|m| m.0 == "setup-done").map(|m| m.2).unwrap_or(0), h.marks.iter().find(|m| m.0 == "end").map(|m| m.2).unwrap_or(out.sim_ns)));
    let mut short = 0u64;
    for d in delays.iter().filter(|d| d.class == Class::Worker) {
        if d.dur_ns < POKE {
            short += 1;
        }
        if d.dur_ns > POKE {
            v.violate("C31", "C31.long-sleep", format!("C31.long-sleep huge={}", d.dur_ns > 3_600_000_000_000), format!("at t={:.4}s the worker asked the timer for a delay of {} ms, longer than the 50 ms poke period", d.now as f64 / 1e9, d.dur_ns / 1_000_000));
            break;
        }
    }
    let mut prev = t0;
    for t in polls.iter().filter(|t| **t >= t0 && **t <= t1) {
        if *t - prev > POKE + S {
            v.violate("C31", "C31.wake-gap", "C31.wake-gap".into(), format!("the worker did not run between t={:.4}s and t={:.4}s ({} ms) although a participant exists", prev as f64 / 1e9, *t as f64 / 1e9, (*t - prev) / 1_000_000));
            break;
        }
        prev = *t;
    }
    if t1 > prev + POKE + S {
        v.violate("C31", "C31.wake-gap", "C31.wake-gap".into(), format!("the worker did not run between t={:.4}s and the end of the run at t={:.4}s", prev as f64 / 1e9, t1 as f64 / 1e9));
    }
    with_hist(|h| {
        for rec in h.recs.iter().filter(|r| r.phase == 1) {
            if let (Op::W { uid, .. }, Res::Unit(Err(E::Timeout))) = (&rec.op, &rec.res) {
                let dur = rec.ret_t - rec.inv_t;
                if dur > p.mbt_ms as u64 * 1_000_000 + POKE + S {
                    v.violate("C31", "C31.timeout-late", "C31.timeout-late".into(), format!("write of seq {uid} returned Timeout after {} ms; max_blocking_time is {} ms", dur / 1_000_000, p.mbt_ms));
                }
            }
            if let (Op::W { uid, .. }, Res::Pending) = (&rec.op, &rec.res) {
                v.violate("C31", "C31.timeout-late", "C31.timeout-late never".into(), format!("write of seq {uid} never returned; max_blocking_time is {} ms", p.mbt_ms));
            }
        }
    });
    v.probe("short_sleeps", short);
    v.probe("worker_sleeps", delays.len() as u64);
    v.nontrivial = short > 0;
    v
}

//! C01 reliable stream, C02 best-effort stream, C05 fragment sweep.

use super::*;
use crate::hist::{with_hist, Res};
use crate::net::{Action, FaultRule, Partition, Scripted};
use crate::wire;

pub fn defs() -> Vec<ScenarioDef> {
    vec![
        ScenarioDef { name: "reliable-stream", prop: "C01", plan: plan_c01, check: check_c01, nontrivial_rule: "at least one network fault fired on user traffic and at least one repair path (resent DATA/DATA_FRAG, GAP, or NACK_FRAG) was exercised", quick_runs: 3000, thorough_runs: 300000, died_is_violation: true },
        ScenarioDef { name: "besteffort-stream", prop: "C02", plan: plan_c02, check: check_c02, nontrivial_rule: "at least one fault (drop, dup or reorder) fired on user traffic and the reader presented at least one sample", quick_runs: 3000, thorough_runs: 300000, died_is_violation: false },
        ScenarioDef { name: "fragment-sweep", prop: "C05", plan: plan_c05, check: check_c05, nontrivial_rule: "at least one fragmented sample was sent and a fault hit DATA_FRAG traffic", quick_runs: 3000, thorough_runs: 300000, died_is_violation: true },
    ]
}

#[derive(Clone, Debug, Serialize, Deserialize, Default)]
pub struct StreamParams {
    pub prop: String,
    /// (writer id, history: 0 keep all / n keep last)
    pub writers: Vec<(u32, u32)>,
    /// (reader id, reliable)
    pub readers: Vec<(u32, bool)>,
    pub heal_ms: u64,
    pub liveness_ms: u64,
    pub fragment_size: usize,
}

struct Cfg {
    prop: &'static str,
    name: &'static str,
    reader_reliable: Option<bool>, // None = mixed
    writer_reliable: Option<bool>,
    sweep: bool,
}

fn gen_len(r: &mut Rng, f: usize, sweep: bool) -> u64 {
    // KeyedData has ~ 16 bytes of non-body payload; aim around fragment boundaries
    let w = if sweep { [1, 1, 6, 2] } else { [4, 2, 3, 1] };
    match r.weighted(&w) {
        0 => r.range(0, 64),
        1 => r.range(0, (f as u64).saturating_sub(24).min(3000)),
        2 => {
            let k = r.range(1, 6);
            let base = k * f as u64;
            (base + r.range(0, 2)).saturating_sub(r.range(0, 26)).min(200_000)
        }
        _ => {
            let k = if f < 64 { r.range(6, 300) } else { r.range(6, 40) };
            (k * f as u64 + r.range(0, f as u64)).min(300_000)
        }
    }
}

fn gen_stream(cfg: &Cfg, seed: u64, tier: &str) -> Plan {
    let mut r = Rng::derive(seed, cfg.name);
    let mut plan = base_plan(cfg.name, seed, tier, &mut r);
    let f = plan.net.fragment_size;
    let n_readers_p = if cfg.sweep { 1 } else { r.usize(1, 2) };
    let n_writers = if cfg.sweep { 1 } else { r.usize(1, 2) };
    let n_inst = r.usize(1, 4) as u8;
    let n_writes = if tier == "quick" { r.usize(3, 25) } else { r.usize(3, 60) };

    let mut setup = vec![];
    setup.push(Op::CreateParticipant { p: 0, domain: 0, tag: String::new(), announce_ms: r.range(50, 2000), q: Q::default(), l: None });
    setup.push(Op::CreateTopic { p: 0, id: 0, name: "T".into(), ty: Ty::Keyed, q: Q::default(), l: None });
    setup.push(Op::CreatePublisher { p: 0, id: 0, q: Q::default(), l: None });
    let mut writers = vec![];
    for w in 0..n_writers as u32 {
        let reliable = cfg.writer_reliable.unwrap_or_else(|| r.chance(0.6));
        let hist = if !reliable { r.range(1, 3) as u32 } else if r.chance(0.6) { 0 } else { r.range(1, 4) as u32 };
        let q = Q { reliable: Some(reliable), history: Some(hist), mbt_ms: Some(-1), ..Default::default() };
        setup.push(Op::CreateWriter { id: w, publisher: 0, topic: 0, q, l: None });
        writers.push((w, hist));
    }
    let mut readers = vec![];
    let mut rid = 0u32;
    for p in 1..=n_readers_p as u32 {
        setup.push(Op::CreateParticipant { p, domain: 0, tag: String::new(), announce_ms: r.range(50, 2000), q: Q::default(), l: None });
        setup.push(Op::CreateTopic { p, id: 0, name: "T".into(), ty: Ty::Keyed, q: Q::default(), l: None });
        setup.push(Op::CreateSubscriber { p, id: p, q: Q::default(), l: None });
        let n = if cfg.sweep { 1 } else { r.usize(1, 2) };
        for _ in 0..n {
            let reliable = cfg.reader_reliable.unwrap_or_else(|| r.chance(0.5));
            let q = Q { reliable: Some(reliable), history: Some(0), ..Default::default() };
            setup.push(Op::CreateReader { id: rid, subscriber: p, topic: 0, q, l: None });
            readers.push((rid, reliable));
            rid += 1;
        }
    }
    // a reliable reader only matches a reliable writer; wait for what will match
    // every compatible pair must be matched (seen from the writer) before the workload starts:
    // a VOLATILE reader matched after a write legitimately does not get that sample
    let wrel: Vec<bool> = setup.iter().filter_map(|o| if let Op::CreateWriter { q, .. } = o { Some(q.reliable == Some(true)) } else { None }).collect();
    for (i, (w, _)) in writers.iter().enumerate() {
        let n = readers.iter().filter(|(_, rrel)| !(*rrel && !wrel[i])).count() as i32;
        setup.push(Op::WaitMatched { kind: "writer".into(), id: *w, n, timeout_ms: 30_000 });
    }
    for (rd, rrel) in &readers {
        let n = wrel.iter().filter(|w| !(*rrel && !**w)).count() as i32;
        setup.push(Op::WaitMatched { kind: "reader".into(), id: *rd, n, timeout_ms: 30_000 });
    }
    setup.push(Op::Sleep { us: 300_000 });
    setup.push(Op::Mark { label: "setup-done".into() });
    plan.phases.push(phase("setup", true, vec![script(setup)]));

    // faults on user traffic only
    let fault_ms = r.range(200, 4000);
    let heal_ms = 100_000; // replaced below once we know the budget: faults are relative to absolute sim time
    let _ = heal_ms;
    let style = r.weighted(&[2, 3, 2, 2, 1]);
    let mut rules = vec![];
    let mut partitions = vec![];
    let mut scripted = vec![];
    // setup usually ends within ~1-3 s of simulated time; faults run from 0 (user traffic only)
    let t_end = 3_000 + fault_ms;
    match style {
        0 => {} // clean
        1 => rules.push(FaultRule { from_ms: 0, to_ms: t_end, src: None, dst: None, class: wire::C_USER, drop: r.f64() * 0.4, dup: r.f64() * 0.2, jitter_us: if r.chance(0.5) { r.range(0, 50_000) } else { 0 } }),
        2 => {
            rules.push(FaultRule { from_ms: 0, to_ms: t_end, src: None, dst: None, class: wire::C_USER_FWD, drop: r.f64() * 0.5, dup: 0.0, jitter_us: r.range(0, 5_000) });
            rules.push(FaultRule { from_ms: 0, to_ms: t_end, src: None, dst: None, class: wire::C_USER_BACK, drop: r.f64() * 0.5, dup: r.f64() * 0.3, jitter_us: 0 });
        }
        3 => {
            let cls = *r.pick(&[wire::C_UDATA, wire::C_UFRAG, wire::C_UHB, wire::C_UACK, wire::C_UGAP, wire::C_UNACKFRAG, wire::C_UFRAG | wire::C_UDATA]);
            for _ in 0..r.usize(1, 4) {
                let action = match r.weighted(&[5, 2, 2]) {
                    0 => Action::Drop,
                    1 => Action::Dup { extra_us: r.range(0, 30_000) },
                    _ => Action::Delay { us: r.range(100, 300_000) },
                };
                scripted.push(Scripted { class: cls, src: None, dst: None, nth: r.range(0, 12), action });
            }
        }
        _ => {
            let a = 1_000 + r.range(0, 2000);
            partitions.push(Partition { from_ms: a, to_ms: a + r.range(100, 3000), a: vec![0], b: (1..=n_readers_p).collect(), class: wire::C_USER, oneway: r.chance(0.3) });
            rules.push(FaultRule { from_ms: 0, to_ms: t_end, src: None, dst: None, class: wire::C_USER, drop: r.f64() * 0.15, dup: r.f64() * 0.1, jitter_us: r.range(0, 20_000) });
        }
    }
    plan.net.rules = rules;
    plan.net.partitions = partitions;
    plan.net.scripted = scripted;
    plan.net.heal_ms = Some(t_end);

    // workload
    let mut uid = 1u32;
    let mut clients = vec![];
    for (w, _) in &writers {
        let mut ops = vec![];
        let per = (n_writes / n_writers).max(1);
        for _ in 0..per {
            let key = r.below(n_inst as u64) as u8;
            let len = gen_len(&mut r, f, cfg.sweep);
            ops.push(Op::W { w: *w, k: WKind::Write, key, len, x: uid as i32, name: String::new(), ts: None, h: H::None, uid });
            uid += 1;
            if r.chance(0.7) {
                ops.push(Op::Sleep { us: *r.pick(&[0u64, 10, 100, 1000, 10_000, 100_000, 300_000]) });
            }
        }
        clients.push(script(ops));
    }
    let period = *r.pick(&[1000u64, 5000, 20_000]);
    for (rd, _) in &readers {
        clients.push(daemon(vec![Op::Drain { r: *rd, period_us: period, read_only: false }]));
    }
    plan.phases.push(phase("workload", false, clients));

    // heal + liveness window
    let liveness_ms = 30_000 + 50 * 300;
    let mut clients = vec![];
    let total = (uid - 1) as usize;
    let mut waiter = vec![Op::SleepUntil { ms: t_end }, Op::Mark { label: "healed".into() }];
    for (rd, rel) in &readers {
        if *rel {
            waiter.push(Op::AwaitCount { r: *rd, n: total, timeout_ms: liveness_ms });
        }
    }
    waiter.push(Op::Sleep { us: 500_000 });
    clients.push(script(waiter));
    for (rd, _) in &readers {
        clients.push(daemon(vec![Op::Drain { r: *rd, period_us: period, read_only: false }]));
    }
    plan.phases.push(phase("heal", true, clients));
    plan.max_sim_ms = t_end + 2 * liveness_ms + 60_000;
    plan.params = serde_json::to_value(StreamParams { prop: cfg.prop.into(), writers, readers, heal_ms: t_end, liveness_ms, fragment_size: f }).unwrap();
    plan
}

fn plan_c01(seed: u64, tier: &str) -> Plan {
    gen_stream(&Cfg { prop: "C01", name: "reliable-stream", reader_reliable: Some(true), writer_reliable: Some(true), sweep: false }, seed, tier)
}
fn plan_c02(seed: u64, tier: &str) -> Plan {
    gen_stream(&Cfg { prop: "C02", name: "besteffort-stream", reader_reliable: Some(false), writer_reliable: None, sweep: false }, seed, tier)
}
fn plan_c05(seed: u64, tier: &str) -> Plan {
    gen_stream(&Cfg { prop: "C05", name: "fragment-sweep", reader_reliable: None, writer_reliable: Some(true), sweep: true }, seed, tier)
}

/// publication sequence per writer: (uid, key, len) of writes that returned Ok, in script order
fn published(plan: &Plan) -> BTreeMap<u32, Vec<(u32, u8, u64, bool)>> {
    let mut m: BTreeMap<u32, Vec<(u32, u8, u64, bool)>> = BTreeMap::new();
    let _ = plan;
    with_hist(|h| {
        for rec in &h.recs {
            if let Op::W { w, k: WKind::Write, key, len, uid, .. } = &rec.op {
                let ok = matches!(rec.res, Res::Unit(Ok(())));
                let pending = matches!(rec.res, Res::Pending);
                if ok || pending {
                    m.entry(*w).or_default().push((*uid, *key, *len, ok));
                }
            }
        }
    });
    m
}

fn check_stream(plan: &Plan, out: &Outcome, liveness: bool) -> Verdict {
    let mut v = Verdict::default();
    let p: StreamParams = serde_json::from_value(plan.params.clone()).unwrap_or_default();
    let prop = p.prop.as_str();
    let pubs = published(plan);
    let whandles: BTreeMap<[u8; 16], u32> = out.world.st.borrow().writers.iter().map(|(id, w)| (w.handle, *id)).collect();
    let f = p.fragment_size as u64;
    let any_fragmented = pubs.values().flatten().any(|x| x.2 + 24 > f);
    // worker panic
    if let Some(pn) = out.panics.first() {
        if liveness {
            v.violate(prop, &format!("{prop}.panic"), format!("{prop}.panic {}", panic_site(&pn.msg)), format!("dust-dds task panicked: {}", pn.msg));
        } else {
            v.inconclusive = true;
        }
    }
    let healed_mark = with_hist(|h| h.marks.iter().find(|m| m.0 == "healed").map(|m| m.2));
    let complete = out.completed_phases == plan.phases.len();
    with_hist(|h| {
        for (rid, reliable) in &p.readers {
            let empty = vec![];
            let log = h.reader_logs.get(rid).unwrap_or(&empty);
            // safety: intact, exactly once, per-instance publication order
            let mut seen: BTreeMap<u32, u64> = BTreeMap::new();
            let mut last_pos: BTreeMap<(u32, u8), usize> = BTreeMap::new();
            for (step, _t, s) in log {
                if !s.valid {
                    continue;
                }
                let Some(wid) = whandles.get(&s.ph) else {
                    v.violate(prop, &format!("{prop}.unknown-writer"), format!("{prop}.unknown-writer"), format!("reader {rid} presented sample seq {} from unknown publication handle {:02x?}", s.seq, s.ph));
                    continue;
                };
                let seqs = pubs.get(wid);
                let pos = seqs.and_then(|q| q.iter().position(|x| x.0 == s.seq));
                let Some(pos) = pos else {
                    v.violate(prop, &format!("{prop}.not-published"), format!("{prop}.not-published"), format!("reader {rid} presented seq {} which writer {wid} never published", s.seq));
                    continue;
                };
                let (uid, key, len, _) = seqs.unwrap()[pos];
                if !s.body_ok || s.len as u64 != len || s.key != key || s.x != uid as i32 {
                    let frag = len + 24 > f;
                    v.violate(prop, &format!("{prop}.corrupt"), format!("{prop}.corrupt fragmented={frag}"), format!("reader {rid} presented seq {uid} with wrong content: len {} (expected {len}) body_ok={} key {} (expected {key})", s.len, s.body_ok, s.key));
                }
                if let Some(prev) = seen.insert(s.seq, *step) {
                    let frag = len + 24 > f;
                    v.violate(prop, &format!("{prop}.duplicate"), format!("{prop}.duplicate fragmented={frag} reliable_reader={reliable}"), format!("reader {rid} presented seq {uid} twice (steps {prev} and {step})"));
                }
                if let Some(lp) = last_pos.get(&(*wid, key)) {
                    if *lp > pos {
                        v.violate(prop, &format!("{prop}.order"), format!("{prop}.order reliable_reader={reliable}"), format!("reader {rid} presented seq {uid} of writer {wid} instance {key} after a later-published sample"));
                    }
                }
                let e = last_pos.entry((*wid, key)).or_insert(pos);
                if pos > *e {
                    *e = pos;
                }
            }
            if !seen.is_empty() {
                v.probe("reader.presented", seen.len() as u64);
            }
            // liveness (reliable readers, reliable writers) after heal
            if liveness && *reliable && out.panics.is_empty() {
                for (wid, hist) in &p.writers {
                    let Some(seqs) = pubs.get(wid) else { continue };
                    let wrel = matches!(plan.phases[0].clients[0].ops.iter().find(|o| matches!(o, Op::CreateWriter { id, .. } if id == wid)), Some(Op::CreateWriter { q, .. }) if q.reliable == Some(true));
                    if !wrel {
                        continue;
                    }
                    // expected: every Ok write still held by the writer
                    let mut expected: Vec<(u32, u64)> = vec![];
                    if *hist == 0 {
                        expected = seqs.iter().filter(|x| x.3).map(|x| (x.0, x.2)).collect();
                    } else {
                        let mut per: BTreeMap<u8, Vec<(u32, u64)>> = BTreeMap::new();
                        for x in seqs.iter().filter(|x| x.3) {
                            per.entry(x.1).or_default().push((x.0, x.2));
                        }
                        for (_, l) in per {
                            let n = l.len();
                            expected.extend(l.into_iter().skip(n.saturating_sub(*hist as usize)));
                        }
                    }
                    let missing: Vec<&(u32, u64)> = expected.iter().filter(|(u, _)| !seen.contains_key(u)).collect();
                    if !missing.is_empty() {
                        let window_elapsed = healed_mark.is_some_and(|t| out.sim_ns >= t + p.liveness_ms * 1_000_000);
                        if !complete && !window_elapsed {
                            // run ended before the liveness window: harness budget problem, not a verdict
                            v.inconclusive = true;
                            continue;
                        }
                        let frag = missing.iter().any(|(_, l)| l + 24 > f);
                        v.violate(
                            prop,
                            &format!("{prop}.liveness"),
                            format!("{prop}.liveness missing_fragmented={frag}"),
                            format!("reader {rid}: {} of {} samples of writer {wid} (history {hist}) still missing {} ms after heal, e.g. seq {} len {} (fragment size {f})", missing.len(), expected.len(), p.liveness_ms, missing[0].0, missing[0].1),
                        );
                    }
                }
            }
        }
    });
    // pending writes at the end (blocked forever) on reliable writers
    if liveness && out.panics.is_empty() {
        let pend = pubs.values().flatten().filter(|x| !x.3).count();
        if pend > 0 && healed_mark.is_some_and(|t| out.sim_ns >= t + p.liveness_ms * 1_000_000) {
            v.violate(prop, &format!("{prop}.write-blocked"), format!("{prop}.write-blocked"), format!("{pend} write call(s) never returned although the network healed"));
        }
    }
    let st = |k: &str| out.stats.get(k).copied().unwrap_or(0);
    let faults = st("net.drop") + st("net.dup") + st("net.reorder") + st("net.partition_drop") + st("net.delayed");
    let repairs = st("net.probe.sent.gap") + st("net.probe.sent.nack_frag");
    v.probe("faults", faults);
    v.probe("fragmented_runs", any_fragmented as u64);
    v.probe("sent.gap", st("net.probe.sent.gap"));
    v.probe("sent.nack_frag", st("net.probe.sent.nack_frag"));
    v.probe("sent.data_frag", st("net.probe.sent.data_frag"));
    let published_n: usize = pubs.values().map(|x| x.len()).sum();
    let sent_data = st("net.probe.sent.data") + st("net.probe.sent.data_frag");
    v.probe("resend", (sent_data > published_n as u64 * p.readers.len().max(1) as u64) as u64);
    v.nontrivial = match prop {
        "C01" => faults > 0 && (repairs > 0 || sent_data > published_n as u64),
        "C02" => faults > 0 && with_hist(|h| h.reader_logs.values().any(|l| !l.is_empty())),
        _ => any_fragmented && faults > 0,
    };
    v
}

pub fn panic_site(msg: &str) -> String {
    msg.rsplit(" @ ").next().unwrap_or("").to_string()
}

fn check_c01(plan: &Plan, out: &Outcome) -> Verdict {
    check_stream(plan, out, true)
}
fn check_c02(plan: &Plan, out: &Outcome) -> Verdict {
    check_stream(plan, out, false)
}
fn check_c05(plan: &Plan, out: &Outcome) -> Verdict {
    check_stream(plan, out, true)
}

//! API-contract scenarios: C28 writer instance management, C35 entity handles / creation, C36 deletion
//! preconditions, C37 QoS validation. Several client tasks call the API concurrently; the recorded
//! history (invoke/return stamped with the simulator's global step counter) must be linearizable
//! with respect to a small sequential model written from the property statements.

use super::*;
use crate::hist::{with_hist, Hd, Rec, Res, E};
use crate::types::handle_of_key;

pub fn defs() -> Vec<ScenarioDef> {
    let mk = |name: &'static str, prop: &'static str, plan: fn(u64, &str) -> Plan, check: fn(&Plan, &Outcome) -> Verdict, rule: &'static str, q: u64| ScenarioDef { name, prop, plan, check, nontrivial_rule: rule, quick_runs: q, thorough_runs: 200000, died_is_violation: true };
    vec![
        mk("api-instances", "C28", plan_c28, check_c28, "the history contains at least one error outcome predicted by the model (unknown instance, keyless type or not-enabled writer) and at least one successful register/lookup pair", 2500),
        mk("api-handles", "C35", plan_c35, check_c35, "at least 20 entities were created and at least one was deleted and re-created, or more than 256 entities of one kind were created in one participant", 1200),
        mk("api-deletion", "C36", plan_c36, check_c36, "at least one deletion was refused by the model (non-empty parent, topic in use, wrong parent) or an operation was issued on a deleted entity", 2500),
        mk("api-qos", "C37", plan_c37, check_c37, "at least one inconsistent or immutable QoS request and one accepted QoS change were issued (the endpoint announcements sent to a second participant are compared with get_qos at the end)", 1200),
    ]
}

// ------------------------------------------------------------------------------------------------
// linearizability (Wing & Gong search with memoisation)

/// abstract result of an operation as far as the model predicts it
#[derive(Clone, Debug, PartialEq, Eq, Hash)]
pub enum A {
    Ok,
    Err(E),
    Handle(Option<Hd>),
    Qos(String),
    /// anything is accepted (the property does not constrain this call)
    Any,
    /// one of several outcomes
    OneOf(Vec<A>),
}

pub fn abstract_res(r: &Res) -> A {
    match r {
        Res::Unit(Ok(())) | Res::Int(_) | Res::Handle(_) => A::Ok,
        Res::OptHandle(Ok(h)) => A::Handle(*h),
        Res::Qos(Ok(q)) => A::Qos(serde_json::to_string(q).unwrap()),
        Res::Panic(m) => A::Err(if m.contains("not yet implemented") { E::Unsupported } else { E::Error }),
        r => match r.err() {
            Some(e) => A::Err(e),
            None => A::Ok,
        },
    }
}

fn matches(want: &A, got: &A) -> bool {
    match want {
        A::Any => true,
        A::OneOf(l) => l.iter().any(|w| matches(w, got)),
        w => w == got,
    }
}

pub trait SeqModel: Clone {
    fn apply(&mut self, op: &Op) -> A;
    fn key(&self) -> String;
}

/// returns None if linearizable, else the index (into `recs`) of an operation that could not be explained
pub fn linearizable<M: SeqModel>(recs: &[&Rec], init: &M) -> Option<usize> {
    let n = recs.len();
    if n == 0 {
        return None;
    }
    if n > 62 {
        return None; // bounded: longer histories are checked sequentially by the callers
    }
    let got: Vec<A> = recs.iter().map(|r| abstract_res(&r.res)).collect();
    let mut seen: std::collections::HashSet<(u64, String)> = Default::default();
    let mut deepest = (0usize, 0usize);
    fn go<M: SeqModel>(recs: &[&Rec], got: &[A], remaining: u64, m: &M, seen: &mut std::collections::HashSet<(u64, String)>, deepest: &mut (usize, usize), budget: &mut u64) -> bool {
        if remaining == 0 {
            return true;
        }
        if *budget == 0 {
            return true; // search budget exhausted: do not raise an alarm
        }
        *budget -= 1;
        if !seen.insert((remaining, m.key())) {
            return false;
        }
        // candidates: operations invoked before every remaining operation returned
        let min_ret = (0..recs.len()).filter(|i| remaining & (1 << i) != 0).map(|i| recs[i].ret_step).min().unwrap();
        for i in 0..recs.len() {
            if remaining & (1 << i) == 0 || recs[i].inv_step > min_ret {
                continue;
            }
            let mut m2 = m.clone();
            let want = m2.apply(&recs[i].op);
            if matches(&want, &got[i]) {
                if go(recs, got, remaining & !(1 << i), &m2, seen, deepest, budget) {
                    return true;
                }
            } else {
                let done = recs.len() - (remaining.count_ones() as usize);
                if done >= deepest.0 {
                    *deepest = (done, i);
                }
            }
        }
        false
    }
    let mut budget = 2_000_000u64;
    let all = if n == 64 { u64::MAX } else { (1u64 << n) - 1 };
    if go(recs, &got, all, init, &mut seen, &mut deepest, &mut budget) { None } else { Some(deepest.1) }
}

fn op_name(op: &Op) -> String {
    let v = serde_json::to_value(op).unwrap();
    let t = v["t"].as_str().unwrap_or("?").to_string();
    match op {
        Op::W { k, .. } => format!("{:?}", k).to_lowercase(),
        Op::DeleteContained { kind, .. } | Op::SetQos { kind, .. } | Op::GetQos { kind, .. } | Op::Enable { kind, .. } => format!("{t}:{kind}"),
        _ => t,
    }
}

/// common reporting: a history that is not linearizable is reported with the operation the search could not explain
fn report<M: SeqModel>(v: &mut Verdict, prop: &str, recs: &[&Rec], init: &M) {
    if let Some(i) = linearizable(recs, init) {
        // what would the model have answered in invocation order?
        let mut m = init.clone();
        let mut want = A::Any;
        let mut order: Vec<usize> = (0..recs.len()).collect();
        order.sort_by_key(|j| recs[*j].inv_step);
        for j in order {
            let w = m.apply(&recs[j].op);
            if j == i {
                want = w;
                break;
            }
        }
        let got = abstract_res(&recs[i].res);
        let name = op_name(&recs[i].op);
        let short = |a: &A| match a {
            A::Err(e) => format!("{:?}", e),
            A::Ok => "Ok".into(),
            A::Handle(Some(_)) => "Some(handle)".into(),
            A::Handle(None) => "None".into(),
            A::Qos(_) => "qos".into(),
            A::Any => "any".into(),
            A::OneOf(_) => "one-of".into(),
        };
        v.violate(prop, &format!("{prop}.not-linearizable"), format!("{prop}.contract {name} got={} want={}", short(&got), short(&want)), format!("no sequential order of the {} concurrent calls explains the results: {} returned {:?}; in invocation order the model answers {:?} (op: {})", recs.len(), name, got, want, serde_json::to_string(&recs[i].op).unwrap()));
    }
}

// ------------------------------------------------------------------------------------------------
// C28

#[derive(Clone, Default)]
struct WriterM {
    enabled: bool,
    keyless: bool,
    registered: std::collections::BTreeSet<u8>,
}
#[derive(Clone, Default)]
struct M28 {
    writers: BTreeMap<u32, WriterM>,
}
impl SeqModel for M28 {
    fn apply(&mut self, op: &Op) -> A {
        match op {
            Op::Enable { kind, id } if kind == "writer" => {
                if let Some(w) = self.writers.get_mut(id) {
                    w.enabled = true;
                }
                A::Ok
            }
            Op::W { w, k, key, .. } => {
                let Some(m) = self.writers.get_mut(w) else { return A::Any };
                if !m.enabled {
                    return A::Err(E::NotEnabled);
                }
                if m.keyless {
                    return match k {
                        WKind::Write => A::Ok,
                        WKind::Dispose | WKind::Unregister => A::Err(E::IllegalOperation),
                        // DDS: register/lookup on a keyless type return the nil handle; the property asks for IllegalOperation
                        WKind::Register | WKind::Lookup => A::OneOf(vec![A::Err(E::IllegalOperation), A::Handle(None), A::Handle(Some([0; 16]))]),
                    };
                }
                match k {
                    WKind::Write => {
                        m.registered.insert(*key);
                        A::Ok
                    }
                    WKind::Register => {
                        m.registered.insert(*key);
                        A::Handle(Some(handle_of_key(*key)))
                    }
                    WKind::Lookup => A::Handle(if m.registered.contains(key) { Some(handle_of_key(*key)) } else { None }),
                    WKind::Dispose => {
                        if m.registered.contains(key) { A::Ok } else { A::Err(E::BadParameter) }
                    }
                    WKind::Unregister => {
                        if m.registered.remove(key) { A::Ok } else { A::Err(E::BadParameter) }
                    }
                }
            }
            _ => A::Any,
        }
    }
    fn key(&self) -> String {
        self.writers.iter().map(|(i, w)| format!("{i}:{}{:?};", w.enabled as u8, w.registered)).collect()
    }
}

fn plan_c28(seed: u64, tier: &str) -> Plan {
    let mut r = Rng::derive(seed, "api-instances");
    let mut plan = base_plan("api-instances", seed, tier, &mut r);
    plan.net.fragment_size = 1344;
    let autoenable = r.chance(0.6);
    let setup = vec![
        Op::CreateParticipant { p: 0, domain: 0, tag: String::new(), announce_ms: 1000, q: Q::default(), l: None },
        Op::CreateTopic { p: 0, id: 0, name: "K".into(), ty: Ty::Keyed, q: Q::default(), l: None },
        Op::CreateTopic { p: 0, id: 1, name: "P".into(), ty: Ty::Plain, q: Q::default(), l: None },
        Op::CreatePublisher { p: 0, id: 0, q: Q { autoenable: Some(autoenable), ..Default::default() }, l: None },
        Op::CreateWriter { id: 0, publisher: 0, topic: 0, q: Q { reliable: Some(false), history: Some(0), ..Default::default() }, l: None },
        Op::CreateWriter { id: 1, publisher: 0, topic: 1, q: Q { reliable: Some(false), history: Some(0), ..Default::default() }, l: None },
        Op::CreateSubscriber { p: 0, id: 0, q: Q::default(), l: None },
        Op::CreateReader { id: 0, subscriber: 0, topic: 0, q: Q { reliable: Some(false), history: Some(0), ..Default::default() }, l: None },
    ];
    plan.phases.push(phase("setup", true, vec![script(setup)]));
    let n_clients = r.usize(1, 3);
    let n_keys = r.range(1, 4);
    let mut uid = 1;
    let mut clients = vec![];
    for c in 0..n_clients {
        let mut ops = vec![];
        let n = if tier == "quick" { r.usize(3, 14) } else { r.usize(3, 20) };
        for _ in 0..n {
            let w = if r.chance(0.8) { 0 } else { 1 };
            let k = match r.weighted(&[3, 2, 2, 3, 3]) {
                0 => WKind::Write,
                1 => WKind::Dispose,
                2 => WKind::Unregister,
                3 => WKind::Register,
                _ => WKind::Lookup,
            };
            let ts = if matches!(k, WKind::Register | WKind::Unregister | WKind::Dispose | WKind::Write) && r.chance(0.3) { Some(0) } else { None };
            let h = if matches!(k, WKind::Unregister | WKind::Dispose | WKind::Write) && r.chance(0.3) { H::OfKey } else { H::None };
            ops.push(Op::W { w, k, key: r.below(n_keys) as u8, len: 4, x: uid, name: String::new(), ts, h, uid: uid as u32 });
            uid += 1;
            if r.chance(0.3) {
                ops.push(Op::Yield { n: r.range(1, 4) as u32 });
            }
        }
        if !autoenable && (c == 0 || r.chance(0.3)) {
            let at = r.usize(0, ops.len());
            ops.insert(at, Op::Enable { kind: "writer".into(), id: 0 });
            if r.chance(0.7) {
                let at = r.usize(0, ops.len());
                ops.insert(at, Op::Enable { kind: "writer".into(), id: 1 });
            }
        }
        clients.push(script(ops));
    }
    plan.phases.push(phase("calls", false, clients));
    plan.phases.push(phase("read", true, vec![script(vec![Op::Enable { kind: "reader".into(), id: 0 }, Op::Sleep { us: 500_000 }, Op::R { r: 0, k: ReadKind::Take, max: i32::MAX, m: Masks::default(), h: H::None, key: 0 }])]));
    plan.params = serde_json::json!({ "autoenable": autoenable });
    plan
}

fn check_c28(plan: &Plan, out: &Outcome) -> Verdict {
    let mut v = Verdict::default();
    if let Some(pn) = out.panics.first() {
        v.violate("C28", "C28.panic", format!("C28.panic {}", stream::panic_site(&pn.msg)), format!("dust-dds task panicked: {}", pn.msg));
        return v;
    }
    let autoenable = plan.params["autoenable"].as_bool().unwrap_or(true);
    let mut init = M28::default();
    init.writers.insert(0, WriterM { enabled: autoenable, keyless: false, ..Default::default() });
    init.writers.insert(1, WriterM { enabled: autoenable, keyless: true, ..Default::default() });
    with_hist(|h| {
        let recs: Vec<&Rec> = h.recs.iter().filter(|r| r.phase == 1 && !matches!(r.op, Op::Yield { .. })).collect();
        if recs.iter().any(|r| matches!(r.res, Res::Pending)) {
            v.violate("C28", "C28.hang", "C28.hang".into(), "an instance-management call never returned".into());
            return;
        }
        report(&mut v, "C28", &recs, &init);
        let errs = recs.iter().filter(|r| r.res.err().is_some()).count();
        let regs = recs.iter().filter(|r| matches!(&r.res, Res::OptHandle(Ok(Some(_))))).count();
        v.probe("error_results", errs as u64);
        v.nontrivial = errs > 0 && regs > 0;
        // the handle the writer assigns is the one the reader reports
        if let Some(log) = h.reader_logs.get(&0) {
            for (_, _, s) in log.iter().filter(|x| x.2.valid) {
                if s.ih != handle_of_key(s.key) {
                    v.violate("C28", "C28.reader-handle", "C28.reader-handle".into(), format!("the reader reports instance handle {:02x?} for key {} but register_instance returns {:02x?}", &s.ih[..4], s.key, &handle_of_key(s.key)[..4]));
                }
            }
        }
        // register_instance must return the key's handle (checked by the model) - also lookups after unregister
    });
    v
}

// ------------------------------------------------------------------------------------------------
// C35

fn plan_c35(seed: u64, tier: &str) -> Plan {
    let mut r = Rng::derive(seed, "api-handles");
    let mut plan = base_plan("api-handles", seed, tier, &mut r);
    plan.net.fragment_size = 1344;
    let setup = vec![
        Op::CreateParticipant { p: 0, domain: 0, tag: String::new(), announce_ms: 5000, q: Q::default(), l: None },
        Op::CreateTopic { p: 0, id: 0, name: "T".into(), ty: Ty::Keyed, q: Q::default(), l: None },
        Op::CreateTopic { p: 0, id: 1, name: "U".into(), ty: Ty::Keyed, q: Q::default(), l: None },
        Op::CreatePublisher { p: 0, id: 0, q: Q::default(), l: None },
        Op::CreateSubscriber { p: 0, id: 0, q: Q::default(), l: None },
    ];
    plan.phases.push(phase("setup", true, vec![script(setup)]));
    // readers and writers use different topics in long histories (N x M local matches are not the subject)
    let reader_topic = if r.chance(0.2) { 0 } else { 1 };
    // a long create/delete history; sometimes far beyond 256 entities of one kind
    let big = r.chance(if tier == "quick" { 0.25 } else { 0.4 });
    let n = if big { r.usize(260, if tier == "quick" { 330 } else { 700 }) } else { r.usize(10, 80) };
    let kinds: Vec<u32> = if big { vec![*r.pick(&[0u32, 1, 2, 3, 4])] } else { vec![0, 1, 2, 3, 4] };
    let mut ops = vec![];
    let mut next = 10u32;
    let mut live: Vec<(u32, u32)> = vec![]; // (kind, id)
    for _ in 0..n {
        let delete = !live.is_empty() && r.chance(if big { 0.15 } else { 0.35 });
        if delete {
            let i = r.below(live.len() as u64) as usize;
            let (k, id) = live.remove(i);
            ops.push(match k {
                0 => Op::DeletePublisher { p: 0, id },
                1 => Op::DeleteSubscriber { p: 0, id },
                2 => Op::DeleteTopic { p: 0, id },
                3 => Op::DeleteWriter { id, via: None },
                _ => Op::DeleteReader { id, via: None },
            });
        } else {
            let k = *r.pick(&kinds);
            let id = next;
            next += 1;
            ops.push(match k {
                0 => Op::CreatePublisher { p: 0, id, q: Q::default(), l: None },
                1 => Op::CreateSubscriber { p: 0, id, q: Q::default(), l: None },
                2 => Op::CreateTopic { p: 0, id, name: format!("T{id}"), ty: Ty::Keyed, q: Q::default(), l: None },
                3 => Op::CreateWriter { id, publisher: 0, topic: 0, q: Q { history: Some(0), ..Default::default() }, l: None },
                _ => Op::CreateReader { id, subscriber: 0, topic: reader_topic, q: Q { history: Some(0), ..Default::default() }, l: None },
            });
            ops.push(Op::GetHandle { kind: ["publisher", "subscriber", "topic", "writer", "reader"][k as usize].into(), id });
            live.push((k, id));
        }
    }
    ops.push(Op::GetQos { kind: "participant".into(), id: 0 });
    plan.phases.push(phase("history", false, vec![script(ops)]));
    plan.max_steps = 3_000_000;
    plan.params = serde_json::json!({ "big": big });
    plan
}

fn check_c35(plan: &Plan, out: &Outcome) -> Verdict {
    let mut v = Verdict::default();
    if let Some(pn) = out.panics.first() {
        v.violate("C35", "C35.panic", format!("C35.panic {}", pn.msg.split(" @ ").next().unwrap_or("")), format!("entity creation made a dust-dds task panic: {}", pn.msg));
        return v;
    }
    if out.steps >= plan.max_steps || out.sim_ns / 1_000_000 >= plan.max_sim_ms {
        // the run used up its step or simulated-time budget (large thorough-tier histories under an unfair schedule): calls that have
        // not returned by then say nothing
        v.inconclusive = true;
        return v;
    }
    with_hist(|h| {
        let recs: Vec<&Rec> = h.recs.iter().filter(|r| r.phase == 1).collect();
        let mut live: BTreeMap<(String, u32), Hd> = BTreeMap::new();
        let mut created = 0;
        let mut recreated = false;
        let mut deleted_any = false;
        let mut per_kind: BTreeMap<String, u32> = BTreeMap::new();
        for rec in &recs {
            match (&rec.op, &rec.res) {
                (_, Res::Panic(m)) => {
                    v.violate("C35", "C35.api-panic", format!("C35.api-panic {}", op_name(&rec.op)), format!("{} panicked: {m}", op_name(&rec.op)));
                }
                (_, Res::Pending) => {
                    v.violate("C35", "C35.hang", "C35.hang".into(), format!("{} never returned", op_name(&rec.op)));
                }
                (Op::GetHandle { kind, id }, Res::Handle(hd)) => {
                    if let Some(((k2, i2), _)) = live.iter().find(|(_, h2)| *h2 == hd) {
                        v.violate("C35", "C35.duplicate-handle", format!("C35.duplicate-handle {kind}"), format!("{kind} {id} has the same instance handle {:02x?} as the still existing {k2} {i2}", &hd[12..]));
                    }
                    live.insert((kind.clone(), *id), *hd);
                    created += 1;
                    *per_kind.entry(kind.clone()).or_default() += 1;
                    if deleted_any {
                        recreated = true;
                    }
                }
                (Op::DeletePublisher { id, .. }, Res::Unit(Ok(()))) => {
                    live.remove(&("publisher".into(), *id));
                    deleted_any = true;
                }
                (Op::DeleteSubscriber { id, .. }, Res::Unit(Ok(()))) => {
                    live.remove(&("subscriber".into(), *id));
                    deleted_any = true;
                }
                (Op::DeleteTopic { id, .. }, Res::Unit(Ok(()))) => {
                    live.remove(&("topic".into(), *id));
                    deleted_any = true;
                }
                (Op::DeleteWriter { id, .. }, Res::Unit(Ok(()))) => {
                    live.remove(&("writer".into(), *id));
                    deleted_any = true;
                }
                (Op::DeleteReader { id, .. }, Res::Unit(Ok(()))) => {
                    live.remove(&("reader".into(), *id));
                    deleted_any = true;
                }
                _ => {}
            }
        }
        if let Some(last) = recs.last() {
            if !matches!(last.res, Res::Qos(Ok(_))) {
                v.violate("C35", "C35.participant-unresponsive", "C35.participant-unresponsive".into(), format!("after the history the participant did not answer get_qos: {:?}", last.res));
            }
        }
        let over = per_kind.values().any(|n| *n > 256);
        v.probe("created", created);
        v.probe("over_256_of_a_kind", over as u64);
        v.nontrivial = (created >= 20 && recreated) || over;
    });
    v
}

// ------------------------------------------------------------------------------------------------
// C36: entity tree model

#[derive(Clone, Default)]
struct M36 {
    /// (kind, id) -> parent (kind, id); participants have no parent
    alive: BTreeMap<(String, u32), Option<(String, u32)>>,
    /// writer/reader -> topic id
    topic_of: BTreeMap<(String, u32), u32>,
    deleted: std::collections::BTreeSet<(String, u32)>,
    participant_of: BTreeMap<(String, u32), u32>,
}
impl M36 {
    fn children(&self, k: &str, id: u32) -> Vec<(String, u32)> {
        self.alive.iter().filter(|(_, p)| p.as_ref().is_some_and(|p| p.0 == k && p.1 == id)).map(|(c, _)| c.clone()).collect()
    }
    fn kill(&mut self, k: &str, id: u32) {
        self.alive.remove(&(k.to_string(), id));
        self.deleted.insert((k.to_string(), id));
    }
    fn exists(&self, k: &str, id: u32) -> bool {
        self.alive.contains_key(&(k.to_string(), id))
    }
}
impl SeqModel for M36 {
    fn apply(&mut self, op: &Op) -> A {
        let s = |x: &str| x.to_string();
        match op {
            Op::CreatePublisher { p, id, .. } | Op::CreateSubscriber { p, id, .. } => {
                let kind = if matches!(op, Op::CreatePublisher { .. }) { "publisher" } else { "subscriber" };
                if !self.exists("participant", *p) {
                    return A::Any;
                }
                self.alive.insert((s(kind), *id), Some((s("participant"), *p)));
                self.participant_of.insert((s(kind), *id), *p);
                A::Ok
            }
            Op::CreateTopic { p, id, .. } => {
                if !self.exists("participant", *p) {
                    return A::Any;
                }
                self.alive.insert((s("topic"), *id), Some((s("participant"), *p)));
                self.participant_of.insert((s("topic"), *id), *p);
                A::Ok
            }
            Op::CreateWriter { id, publisher, topic, .. } => {
                if !self.exists("publisher", *publisher) || !self.exists("topic", *topic) {
                    return A::Any;
                }
                self.alive.insert((s("writer"), *id), Some((s("publisher"), *publisher)));
                self.topic_of.insert((s("writer"), *id), *topic);
                A::Ok
            }
            Op::CreateReader { id, subscriber, topic, .. } => {
                if !self.exists("subscriber", *subscriber) || !self.exists("topic", *topic) {
                    return A::Any;
                }
                self.alive.insert((s("reader"), *id), Some((s("subscriber"), *subscriber)));
                self.topic_of.insert((s("reader"), *id), *topic);
                A::Ok
            }
            Op::DeletePublisher { p, id } | Op::DeleteSubscriber { p, id } => {
                let kind = if matches!(op, Op::DeletePublisher { .. }) { "publisher" } else { "subscriber" };
                if !self.exists(kind, *id) {
                    return if self.deleted.contains(&(s(kind), *id)) { A::OneOf(vec![A::Err(E::AlreadyDeleted), A::Err(E::PreconditionNotMet)]) } else { A::Any };
                }
                if self.participant_of.get(&(s(kind), *id)) != Some(p) {
                    return A::Err(E::PreconditionNotMet);
                }
                if !self.children(kind, *id).is_empty() {
                    return A::Err(E::PreconditionNotMet);
                }
                self.kill(kind, *id);
                A::Ok
            }
            Op::DeleteTopic { p, id } => {
                if !self.exists("topic", *id) {
                    return if self.deleted.contains(&(s("topic"), *id)) { A::OneOf(vec![A::Err(E::AlreadyDeleted), A::Err(E::PreconditionNotMet)]) } else { A::Any };
                }
                if self.participant_of.get(&(s("topic"), *id)) != Some(p) {
                    return A::Err(E::PreconditionNotMet);
                }
                let used = self.topic_of.iter().any(|(e, t)| t == id && self.alive.contains_key(e));
                if used {
                    return A::Err(E::PreconditionNotMet);
                }
                self.kill("topic", *id);
                A::Ok
            }
            Op::DeleteWriter { id, via } | Op::DeleteReader { id, via } => {
                let (kind, pk) = if matches!(op, Op::DeleteWriter { .. }) { ("writer", "publisher") } else { ("reader", "subscriber") };
                if !self.exists(kind, *id) {
                    return if self.deleted.contains(&(s(kind), *id)) { A::OneOf(vec![A::Err(E::AlreadyDeleted), A::Err(E::PreconditionNotMet)]) } else { A::Any };
                }
                let parent = self.alive[&(s(kind), *id)].clone().unwrap();
                if let Some(v) = via {
                    if *v != parent.1 {
                        // the property does not say which error a delete through the wrong parent gives
                        return if self.exists(pk, *v) { A::OneOf(vec![A::Err(E::PreconditionNotMet), A::Err(E::AlreadyDeleted), A::Err(E::BadParameter)]) } else { A::Any };
                    }
                }
                self.kill(kind, *id);
                A::Ok
            }
            Op::DeleteContained { kind, id } => {
                if !self.exists(kind, *id) {
                    return if self.deleted.contains(&(kind.clone(), *id)) { A::Err(E::AlreadyDeleted) } else { A::Any };
                }
                let mut stack = self.children(kind, *id);
                while let Some((k, i)) = stack.pop() {
                    stack.extend(self.children(&k, i));
                    self.kill(&k, i);
                }
                A::Ok
            }
            Op::DeleteParticipant { p } => {
                if !self.exists("participant", *p) {
                    return if self.deleted.contains(&(s("participant"), *p)) { A::OneOf(vec![A::Err(E::AlreadyDeleted), A::Err(E::PreconditionNotMet), A::Err(E::BadParameter)]) } else { A::Any };
                }
                if !self.children("participant", *p).is_empty() {
                    return A::Err(E::PreconditionNotMet);
                }
                self.kill("participant", *p);
                A::Ok
            }
            Op::GetQos { kind, id } => {
                if self.exists(kind, *id) {
                    A::Any
                } else if self.deleted.contains(&(kind.clone(), *id)) {
                    A::Err(E::AlreadyDeleted)
                } else {
                    A::Any
                }
            }
            _ => A::Any,
        }
    }
    fn key(&self) -> String {
        format!("{:?}", self.alive.keys().collect::<Vec<_>>())
    }
}

fn plan_c36(seed: u64, tier: &str) -> Plan {
    let mut r = Rng::derive(seed, "api-deletion");
    let mut plan = base_plan("api-deletion", seed, tier, &mut r);
    plan.net.fragment_size = 1344;
    let setup = vec![
        Op::CreateParticipant { p: 0, domain: 0, tag: String::new(), announce_ms: 5000, q: Q::default(), l: None },
        Op::CreateParticipant { p: 1, domain: 0, tag: String::new(), announce_ms: 5000, q: Q::default(), l: None },
    ];
    plan.phases.push(phase("setup", true, vec![script(setup)]));
    let n_clients = r.usize(1, 2);
    let mut next = 1u32;
    // entity pools shared between the clients so that they interfere
    let mut pubs: Vec<(u32, u32)> = vec![];
    let mut subs: Vec<(u32, u32)> = vec![];
    let mut topics: Vec<(u32, u32)> = vec![];
    let mut writers: Vec<(u32, u32)> = vec![]; // (id, publisher)
    let mut readers: Vec<(u32, u32)> = vec![];
    let mut clients: Vec<Vec<Op>> = vec![vec![]; n_clients];
    let total = if tier == "quick" { r.usize(8, 30) } else { r.usize(8, 50) };
    for _ in 0..total {
        let c = r.below(n_clients as u64) as usize;
        let ops = &mut clients[c];
        match r.weighted(&[3, 3, 3, 4, 4, 3, 3, 3, 2, 2, 2, 1]) {
            0 => {
                let p = r.below(2) as u32;
                ops.push(Op::CreatePublisher { p, id: next, q: Q::default(), l: None });
                pubs.push((next, p));
                next += 1;
            }
            1 => {
                let p = r.below(2) as u32;
                ops.push(Op::CreateSubscriber { p, id: next, q: Q::default(), l: None });
                subs.push((next, p));
                next += 1;
            }
            2 => {
                let p = r.below(2) as u32;
                ops.push(Op::CreateTopic { p, id: next, name: format!("T{next}"), ty: Ty::Keyed, q: Q::default(), l: None });
                topics.push((next, p));
                next += 1;
            }
            3 => {
                if let (Some(pb), true) = (pubs.last().copied(), !topics.is_empty()) {
                    let t: Vec<&(u32, u32)> = topics.iter().filter(|t| t.1 == pb.1).collect();
                    if let Some(t) = t.last() {
                        ops.push(Op::CreateWriter { id: next, publisher: pb.0, topic: t.0, q: Q { history: Some(0), ..Default::default() }, l: None });
                        writers.push((next, pb.0));
                        next += 1;
                    }
                }
            }
            4 => {
                if let (Some(sb), true) = (subs.last().copied(), !topics.is_empty()) {
                    let t: Vec<&(u32, u32)> = topics.iter().filter(|t| t.1 == sb.1).collect();
                    if let Some(t) = t.last() {
                        ops.push(Op::CreateReader { id: next, subscriber: sb.0, topic: t.0, q: Q { history: Some(0), ..Default::default() }, l: None });
                        readers.push((next, sb.0));
                        next += 1;
                    }
                }
            }
            5 => {
                if !pubs.is_empty() {
                    let (id, p) = *r.pick(&pubs);
                    // sometimes through the wrong participant
                    ops.push(Op::DeletePublisher { p: if r.chance(0.2) { 1 - p } else { p }, id });
                }
            }
            6 => {
                if !subs.is_empty() {
                    let (id, p) = *r.pick(&subs);
                    ops.push(Op::DeleteSubscriber { p: if r.chance(0.2) { 1 - p } else { p }, id });
                }
            }
            7 => {
                if !topics.is_empty() {
                    let (id, p) = *r.pick(&topics);
                    ops.push(Op::DeleteTopic { p: if r.chance(0.2) { 1 - p } else { p }, id });
                }
            }
            8 => {
                if !writers.is_empty() {
                    let (id, pb) = *r.pick(&writers);
                    let via = if r.chance(0.25) && pubs.len() > 1 { Some(r.pick(&pubs).0) } else { None };
                    let _ = pb;
                    ops.push(Op::DeleteWriter { id, via });
                }
            }
            9 => {
                if !readers.is_empty() {
                    let (id, _) = *r.pick(&readers);
                    let via = if r.chance(0.25) && subs.len() > 1 { Some(r.pick(&subs).0) } else { None };
                    ops.push(Op::DeleteReader { id, via });
                }
            }
            10 => {
                // operate on (possibly deleted) entities
                let mut cands: Vec<(&str, u32)> = vec![];
                cands.extend(writers.iter().map(|w| ("writer", w.0)));
                cands.extend(readers.iter().map(|w| ("reader", w.0)));
                cands.extend(pubs.iter().map(|w| ("publisher", w.0)));
                cands.extend(subs.iter().map(|w| ("subscriber", w.0)));
                cands.extend(topics.iter().map(|w| ("topic", w.0)));
                if !cands.is_empty() {
                    let (k, id) = *r.pick(&cands);
                    ops.push(Op::GetQos { kind: k.into(), id });
                }
            }
            _ => {
                match r.below(3) {
                    0 => ops.push(Op::DeleteContained { kind: "participant".into(), id: r.below(2) as u32 }),
                    1 if !pubs.is_empty() => ops.push(Op::DeleteContained { kind: "publisher".into(), id: r.pick(&pubs).0 }),
                    _ if !subs.is_empty() => ops.push(Op::DeleteContained { kind: "subscriber".into(), id: r.pick(&subs).0 }),
                    _ => {}
                }
            }
        }
        if r.chance(0.2) {
            clients[c].push(Op::Yield { n: r.range(1, 3) as u32 });
        }
    }
    // finally: the parents are empty and deletable after delete_contained_entities
    let fin = vec![Op::DeleteContained { kind: "participant".into(), id: 1 }, Op::DeleteParticipant { p: 1 }, Op::DeleteParticipant { p: 0 }];
    plan.phases.push(phase("calls", false, clients.into_iter().map(script).collect()));
    plan.phases.push(phase("final", true, vec![script(fin)]));
    plan
}

fn check_c36(_plan: &Plan, out: &Outcome) -> Verdict {
    let mut v = Verdict::default();
    if let Some(pn) = out.panics.first() {
        v.violate("C36", "C36.panic", format!("C36.panic {}", stream::panic_site(&pn.msg)), format!("dust-dds task panicked: {}", pn.msg));
        return v;
    }
    let mut init = M36::default();
    for p in 0..2 {
        init.alive.insert(("participant".into(), p), None);
    }
    with_hist(|h| {
        let recs: Vec<&Rec> = h.recs.iter().filter(|r| r.phase >= 1 && !matches!(r.op, Op::Yield { .. })).collect();
        if recs.iter().any(|r| matches!(r.res, Res::Pending)) {
            v.violate("C36", "C36.hang", "C36.hang".into(), "a call never returned".into());
            return;
        }
        // unimplemented operations are reported on their own
        for r in recs.iter().filter(|r| matches!(&r.res, Res::Panic(m) if m.contains("not yet implemented"))) {
            v.violate("C36", "C36.unimplemented", format!("C36.unimplemented {}", op_name(&r.op)), format!("{} is not implemented (todo!()) and panics the caller", op_name(&r.op)));
        }
        let usable: Vec<&Rec> = recs.iter().filter(|r| !matches!(&r.res, Res::Panic(m) if m.contains("not yet implemented")) && !matches!(r.res, Res::Skipped(_))).copied().collect();
        // the model must not apply the effect of a call that panicked: drop them from the history
        report(&mut v, "C36", &usable, &init);
        let refused = usable.iter().filter(|r| matches!(r.res.err(), Some(E::PreconditionNotMet) | Some(E::AlreadyDeleted))).count();
        v.probe("refused", refused as u64);
        v.nontrivial = refused > 0;
    });
    v
}

// ------------------------------------------------------------------------------------------------
// C37

fn canon(kind: &str, q: &Q) -> String {
    // the policies each entity kind really has, with defaults made explicit
    let mut q = q.clone();
    match kind {
        "writer" => {
            q.reliable = Some(q.reliable.unwrap_or(true));
            q.mbt_ms = Some(q.mbt_ms.unwrap_or(100));
            q.durability = Some(q.durability.unwrap_or(0));
            q.history = Some(q.history.unwrap_or(1));
            q.liveliness = Some(q.liveliness.unwrap_or(0));
            q.autodispose = Some(q.autodispose.unwrap_or(true));
            q.repr = Some(q.repr.unwrap_or_default());
            q.latency_ns = Some(q.latency_ns.unwrap_or(0));
            q.tbf_ns = None;
        }
        "reader" => {
            q.reliable = Some(q.reliable.unwrap_or(false));
            q.mbt_ms = Some(q.mbt_ms.unwrap_or(100));
            q.durability = Some(q.durability.unwrap_or(0));
            q.history = Some(q.history.unwrap_or(1));
            q.liveliness = Some(q.liveliness.unwrap_or(0));
            q.repr = Some(q.repr.unwrap_or_default());
            q.latency_ns = Some(q.latency_ns.unwrap_or(0));
            q.autodispose = None;
            q.lifespan_ns = None;
            q.strength = 0;
        }
        _ => {}
    }
    serde_json::to_string(&q).unwrap()
}

fn consistent(q: &Q) -> bool {
    let ms = q.max_samples;
    let spi = q.max_spi;
    let ok1 = match (ms, spi) {
        (Some(m), Some(s)) => m >= s,
        (Some(_), None) => false,
        _ => true,
    };
    let ok2 = match q.history.unwrap_or(1) {
        0 => true,
        d => spi.is_none_or(|s| d as i32 <= s),
    };
    let ok3 = match (q.deadline_ns, q.tbf_ns) {
        (Some(d), Some(t)) => d >= t,
        _ => true,
    };
    ok1 && ok2 && ok3
}

/// may `new` replace `old` on an enabled reader/writer (only the mutable policies differ)?
fn mutable_only(kind: &str, old: &Q, new: &Q) -> bool {
    // compared in canonical form (defaults made explicit): a QoS taken from the factory default spells things differently
    let strip = |q: &Q| {
        let c: Q = serde_json::from_str(&canon(kind, q)).unwrap();
        // DATA_REPRESENTATION comes from DDS-XTypes; dust-dds does not list it among the immutable policies and the
        // property does not say which list applies, so a change of it is accepted either way (not judged)
        Q { deadline_ns: None, latency_ns: None, user_data: vec![], strength: 0, lifespan_ns: None, tbf_ns: None, autodispose: None, mbt_ms: None, repr: None, ..c }
    };
    strip(old) == strip(new)
}

#[derive(Clone, Default)]
struct M37 {
    qos: BTreeMap<(String, u32), Q>,
    /// factory defaults: ("writer" | "reader") -> QoS new entities and QosKind::Default get
    defaults: BTreeMap<String, Q>,
}
impl SeqModel for M37 {
    fn apply(&mut self, op: &Op) -> A {
        match op {
            Op::CreateWriter { id, q, .. } | Op::CreateReader { id, q, .. } => {
                let kind = if matches!(op, Op::CreateWriter { .. }) { "writer" } else { "reader" };
                let mut q2 = q.clone();
                if kind == "writer" {
                    q2.tbf_ns = None;
                }
                if kind == "writer" && q.repr.as_ref().is_some_and(|l| l.len() > 1) {
                    return A::Err(E::InconsistentPolicy);
                }
                if !consistent(&q2) {
                    return A::Err(E::InconsistentPolicy);
                }
                self.qos.insert((kind.to_string(), *id), q.clone());
                A::Ok
            }
            Op::SetQos { kind, q, .. } if kind == "publisher-default-writer-qos" || kind == "subscriber-default-reader-qos" => {
                let ek = if kind.starts_with("publisher") { "writer" } else { "reader" };
                let mut q2 = q.clone();
                if ek == "writer" {
                    q2.tbf_ns = None;
                }
                if !consistent(&q2) || (ek == "writer" && q.repr.as_ref().is_some_and(|l| l.len() > 1)) {
                    return A::Err(E::InconsistentPolicy);
                }
                self.defaults.insert(ek.to_string(), q.clone());
                A::Ok
            }
            Op::SetQos { kind, id, q } if kind == "writer" || kind == "reader" || kind == "writer-default" || kind == "reader-default" => {
                let (kind, q) = match kind.as_str() {
                    "writer-default" => ("writer".to_string(), self.defaults.get("writer").cloned().unwrap_or_default()),
                    "reader-default" => ("reader".to_string(), self.defaults.get("reader").cloned().unwrap_or_default()),
                    _ => (kind.clone(), q.clone()),
                };
                let (kind, q) = (&kind, &q);
                let Some(old) = self.qos.get(&(kind.clone(), *id)).cloned() else { return A::Any };
                let mut q2 = q.clone();
                if kind == "writer" {
                    q2.tbf_ns = None;
                }
                if kind == "writer" && q.repr.as_ref().is_some_and(|l| l.len() > 1) {
                    return A::Err(E::InconsistentPolicy);
                }
                if !consistent(&q2) {
                    return A::Err(E::InconsistentPolicy);
                }
                if !mutable_only(kind, &old, q) {
                    return A::Err(E::ImmutablePolicy);
                }
                self.qos.insert((kind.clone(), *id), q.clone());
                A::Ok
            }
            Op::GetQos { kind, id } if kind == "writer" || kind == "reader" => match self.qos.get(&(kind.clone(), *id)) {
                Some(q) => A::Qos(canon(kind, q)),
                None => A::Any,
            },
            _ => A::Any,
        }
    }
    fn key(&self) -> String {
        format!("{:?} {:?}", self.qos.iter().map(|(k, q)| (k.clone(), serde_json::to_string(q).unwrap())).collect::<Vec<_>>(), self.defaults.iter().map(|(k, q)| (k.clone(), serde_json::to_string(q).unwrap())).collect::<Vec<_>>())
    }
}

fn gen_q37(r: &mut Rng, writer: bool) -> Q {
    let mut q = Q { history: Some(if r.chance(0.5) { 0 } else { r.range(1, 4) as u32 }), ..Default::default() };
    if r.chance(0.5) {
        q.max_spi = Some(r.range(1, 4) as i32);
    }
    if r.chance(0.4) {
        q.max_samples = Some(r.range(1, 6) as i32);
    }
    if r.chance(0.3) {
        q.max_instances = Some(r.range(1, 3) as i32);
    }
    if r.chance(0.4) {
        q.deadline_ns = Some(*r.pick(&[1_000_000u64, 1_000_000_000, 2_000_000_000]));
    }
    if !writer && r.chance(0.4) {
        q.tbf_ns = Some(*r.pick(&[1_000_000u64, 1_500_000_000, 3_000_000_000]));
    }
    if r.chance(0.3) {
        q.reliable = Some(r.chance(0.5));
    }
    if r.chance(0.3) {
        q.durability = Some(r.below(2) as u8);
    }
    if r.chance(0.3) {
        q.user_data = vec![r.below(255) as u8; r.usize(1, 5)];
    }
    if r.chance(0.2) {
        q.repr = Some(if writer { r.pick(&[vec![0u16], vec![2u16], vec![0u16, 2u16]]).clone() } else { r.pick(&[vec![0u16], vec![2u16, 0u16]]).clone() });
    }
    if writer && r.chance(0.2) {
        q.lifespan_ns = Some(1_000_000_000);
    }
    q
}

fn plan_c37(seed: u64, tier: &str) -> Plan {
    let mut r = Rng::derive(seed, "api-qos");
    let mut plan = base_plan("api-qos", seed, tier, &mut r);
    plan.net.fragment_size = 1344;
    let setup = vec![
        Op::CreateParticipant { p: 0, domain: 0, tag: String::new(), announce_ms: 500, q: Q::default(), l: None },
        Op::CreateTopic { p: 0, id: 0, name: "T".into(), ty: Ty::Keyed, q: Q::default(), l: None },
        Op::CreatePublisher { p: 0, id: 0, q: Q::default(), l: None },
        Op::CreateSubscriber { p: 0, id: 0, q: Q::default(), l: None },
    ];
    // a second participant, so that endpoint announcements are really sent (and can be inspected on the wire)
    let mut setup = setup;
    setup.push(Op::CreateParticipant { p: 1, domain: 0, tag: String::new(), announce_ms: 500, q: Q::default(), l: None });
    setup.push(Op::Sleep { us: 1_500_000 });
    plan.net.capture = true;
    plan.phases.push(phase("setup", true, vec![script(setup)]));
    let n_clients = r.usize(1, 2);
    let mut clients: Vec<Vec<Op>> = vec![vec![]; n_clients];
    let mut next = 1u32;
    let mut ents: Vec<(&str, u32, Q)> = vec![];
    let total = if tier == "quick" { r.usize(6, 24) } else { r.usize(6, 40) };
    for _ in 0..total {
        let c = r.below(n_clients as u64) as usize;
        match r.weighted(&[3, 4, 3, 2]) {
            3 => {
                // factory defaults and QosKind::Default on an existing entity
                if r.chance(0.5) || ents.is_empty() {
                    let writer = r.chance(0.5);
                    let q = gen_q37(&mut r, writer);
                    clients[c].push(Op::SetQos { kind: if writer { "publisher-default-writer-qos".into() } else { "subscriber-default-reader-qos".into() }, id: 0, q });
                } else {
                    let (k, id, _) = r.pick(&ents).clone();
                    clients[c].push(Op::SetQos { kind: format!("{k}-default"), id, q: Q::default() });
                }
            }
            0 => {
                let writer = r.chance(0.5);
                let q = gen_q37(&mut r, writer);
                if writer {
                    clients[c].push(Op::CreateWriter { id: next, publisher: 0, topic: 0, q: q.clone(), l: None });
                    ents.push(("writer", next, q));
                } else {
                    clients[c].push(Op::CreateReader { id: next, subscriber: 0, topic: 0, q: q.clone(), l: None });
                    ents.push(("reader", next, q));
                }
                next += 1;
            }
            1 => {
                if let Some((k, id, q0)) = ents.last().cloned().or(None) {
                    let i = r.below(ents.len() as u64) as usize;
                    let (k, id, q0) = if r.chance(0.5) { (k, id, q0) } else { ents[i].clone() };
                    // a mutable change, an immutable change or an inconsistent one
                    let mut q = q0.clone();
                    match r.below(8) {
                        0 => q.deadline_ns = Some(*r.pick(&[1_000_000u64, 5_000_000_000])),
                        1 => q.user_data = vec![7; r.usize(1, 4)],
                        2 => q.history = Some(q0.history.unwrap_or(1) + 1),
                        3 => {
                            q.max_samples = Some(1);
                            q.max_spi = Some(2);
                        }
                        // the other mutable policies (each is announced over SEDP; compared on the wire at the end)
                        4 => q.latency_ns = Some(*r.pick(&[2_000_000u64, 1_250_000_000, 7_000_000_000])),
                        5 if k == "writer" => q.lifespan_ns = Some(*r.pick(&[750_000_000u64, 3_000_000_000, 60_000_000_000])),
                        // (may be inconsistent with the deadline: minimum_separation > deadline period is rejected)
                        5 => q.tbf_ns = Some(*r.pick(&[500_000u64, 1_200_000_000, 4_000_000_000])),
                        6 if k == "writer" => q.strength = r.range(1, 9) as i32,
                        // an immutable one: reliability kind
                        6 => q.reliable = Some(!q0.reliable.unwrap_or(false)),
                        _ => q.durability = Some(1 - q0.durability.unwrap_or(0).min(1)),
                    }
                    clients[c].push(Op::SetQos { kind: k.into(), id, q });
                }
            }
            _ => {
                if !ents.is_empty() {
                    let (k, id, _) = r.pick(&ents).clone();
                    clients[c].push(Op::GetQos { kind: k.into(), id });
                }
            }
        }
    }
    plan.phases.push(phase("calls", false, clients.into_iter().map(script).collect()));
    // (time for the announcements of the last accepted changes to leave)
    let mut fin = vec![Op::Sleep { us: 1_000_000 }];
    for (k, id, _) in &ents {
        fin.push(Op::GetQos { kind: k.to_string(), id: *id });
    }
    plan.phases.push(phase("final", true, vec![script(fin)]));
    plan
}

fn check_c37(_plan: &Plan, out: &Outcome) -> Verdict {
    let mut v = Verdict::default();
    if let Some(pn) = out.panics.first() {
        v.violate("C37", "C37.panic", format!("C37.panic {}", stream::panic_site(&pn.msg)), format!("dust-dds task panicked: {}", pn.msg));
        return v;
    }
    let init = M37::default();
    with_hist(|h| {
        // normalise observed get_qos results to the canonical form used by the model
        let mut recs: Vec<Rec> = h.recs.iter().filter(|r| r.phase >= 1).cloned().collect();
        for r in recs.iter_mut() {
            if let (Op::GetQos { kind, .. }, Res::Qos(Ok(q))) = (&r.op, &r.res) {
                let c: Q = serde_json::from_str(&canon(kind, q)).unwrap();
                r.res = Res::Qos(Ok(c));
            }
        }
        let refs: Vec<&Rec> = recs.iter().filter(|r| !matches!(r.res, Res::Skipped(_))).collect();
        report(&mut v, "C37", &refs, &init);
        let rejected = refs.iter().filter(|r| matches!(r.res.err(), Some(E::InconsistentPolicy) | Some(E::ImmutablePolicy))).count();
        let accepted = refs.iter().filter(|r| matches!((&r.op, &r.res), (Op::SetQos { .. }, Res::Unit(Ok(()))))).count();
        v.probe("rejected", rejected as u64);
        v.probe("accepted_changes", accepted as u64);
        v.nontrivial = rejected > 0 && accepted > 0;
    });
    if !v.violations.is_empty() {
        return v;
    }
    // "... and announced to remote participants": the last endpoint announcement (SEDP DATA) sent for every
    // entity carries the deadline and user data that get_qos returns at the end
    let node0 = out.world.node_of(0);
    let mut ents: Vec<(&str, u32, [u8; 16])> = out.world.st.borrow().writers.iter().map(|(id, w)| ("writer", *id, w.handle)).collect();
    ents.extend(out.world.st.borrow().readers.iter().map(|(id, r)| ("reader", *id, r.handle)));
    let finals: BTreeMap<(String, u32), Q> = with_hist(|h| h.recs.iter().filter(|r| r.phase == 2).filter_map(|r| if let (Op::GetQos { kind, id }, Res::Qos(Ok(q))) = (&r.op, &r.res) { Some(((kind.clone(), *id), q.clone())) } else { None }).collect());
    let announced: Vec<(u32, i64, Vec<(u16, Vec<u8>)>)> = crate::net::with_net(|n| n.wire.iter().filter(|w| w.src.is_some() && w.src == node0 && !w.dup && w.class & crate::wire::C_SEDP != 0).filter_map(|w| w.bytes.clone()).flat_map(|b| crate::wire::discovery_parameters(&b)).collect());
    for (kind, id, handle) in ents {
        let Some(q) = finals.get(&(kind.to_string(), id)) else { continue };
        let sedp_writer = if kind == "writer" { 0x0000_03c2u32 } else { 0x0000_04c2 };
        // the most recent announcement is the one with the highest sequence number of the discovery writer (older
        // changes can be on the wire later: retransmissions, duplicates)
        let last = announced.iter().filter(|(w, _, ps)| *w == sedp_writer && ps.iter().any(|(pid, val)| *pid == 0x005a && val.len() >= 16 && val[..16] == handle)).max_by_key(|x| x.1);
        let Some((_, _, ps)) = last else {
            v.violate("C37", "C37.not-announced", format!("C37.not-announced {kind}"), format!("{kind} {id} was created but no endpoint announcement for it was sent to the discovered participant"));
            continue;
        };
        v.probe("announcements_checked", 1);
        let ud: Vec<u8> = ps.iter().find(|(pid, _)| *pid == 0x002c).map(|(_, val)| if val.len() >= 4 { let n = u32::from_le_bytes([val[0], val[1], val[2], val[3]]) as usize; val[4..(4 + n).min(val.len())].to_vec() } else { vec![] }).unwrap_or_default();
        if ud != q.user_data {
            v.violate("C37", "C37.announced-qos-differs", format!("C37.announced-qos-differs {kind} user_data"), format!("{kind} {id}: get_qos returns user_data {:?} but the last announcement sent carries {:?}", q.user_data, ud));
        }
        let dl = ps.iter().find(|(pid, _)| *pid == 0x0023).map(|(_, val)| if val.len() >= 8 { (i32::from_le_bytes([val[0], val[1], val[2], val[3]]), u32::from_le_bytes([val[4], val[5], val[6], val[7]])) } else { (0, 0) });
        let want = q.deadline_ns.map(|ns| ((ns / 1_000_000_000) as i32, ns % 1_000_000_000 != 0));
        let got = match dl {
            None => None,
            Some((s, _)) if s == i32::MAX => None,
            Some((s, f)) => Some((s, f != 0)),
        };
        if want != got {
            v.violate("C37", "C37.announced-qos-differs", format!("C37.announced-qos-differs {kind} deadline"), format!("{kind} {id}: get_qos returns deadline {:?} ns but the last announcement sent carries {:?} (seconds, fraction)", q.deadline_ns, dl));
        }
        // the other mutable duration policies and the ownership strength (a parameter equal to its default is omitted
        // on the wire). QoS durations travel as DDS Duration_t (seconds, nanoseconds) - not as the RTPS (seconds, 2^-32 s
        // fraction) used for timestamps - so they are compared exactly
        let wire_dur = |pid: u16, default: Option<u64>| -> Option<u64> {
            match ps.iter().find(|(p, _)| *p == pid) {
                None => default,
                Some((_, val)) if val.len() >= 8 => {
                    let (s, f) = (i32::from_le_bytes([val[0], val[1], val[2], val[3]]), u32::from_le_bytes([val[4], val[5], val[6], val[7]]));
                    if s == i32::MAX { None } else { Some(s as u64 * 1_000_000_000 + f as u64) }
                }
                Some(_) => Some(u64::MAX),
            }
        };
        let close = |a: Option<u64>, b: Option<u64>| match (a, b) {
            (None, None) => true,
            (Some(x), Some(y)) => x == y,
            _ => false,
        };
        let mut durs: Vec<(&str, u16, Option<u64>, Option<u64>)> = vec![("latency_budget", 0x0027, Some(q.latency_ns.unwrap_or(0)), Some(0)), ("deadline (exact)", 0x0023, q.deadline_ns, None)];
        if kind == "writer" {
            durs.push(("lifespan", 0x002b, q.lifespan_ns, None));
        } else {
            durs.push(("time_based_filter", 0x0004, Some(q.tbf_ns.unwrap_or(0)), Some(0)));
        }
        for (name, pid, want, default) in durs {
            let got = wire_dur(pid, default);
            if !close(want, got) {
                v.violate("C37", "C37.announced-qos-differs", format!("C37.announced-qos-differs {kind} {name}"), format!("{kind} {id}: get_qos returns {name} {want:?} ns but the last announcement sent carries {got:?} ns"));
            }
        }
        if kind == "writer" {
            let got = ps.iter().find(|(p, _)| *p == 0x0006).map(|(_, val)| if val.len() >= 4 { i32::from_le_bytes([val[0], val[1], val[2], val[3]]) } else { i32::MIN }).unwrap_or(0);
            if got != q.strength {
                v.violate("C37", "C37.announced-qos-differs", format!("C37.announced-qos-differs {kind} ownership_strength"), format!("{kind} {id}: get_qos returns ownership strength {} but the last announcement sent carries {got}", q.strength));
            }
        }
        v.probe("announced_policies_compared", 5);
    }
    v
}

//! C03 wait_for_acknowledgments: soundness (freeze-and-read) and bounded completion after heal.

use super::*;
use crate::hist::{with_hist, Res, E};
use crate::net::FaultRule;
use crate::wire;

pub fn defs() -> Vec<ScenarioDef> {
    vec![ScenarioDef {
        name: "wait-for-acks",
        prop: "C03",
        plan: plan_c03,
        check: check_c03,
        nontrivial_rule: "at least one wait_for_acknowledgments call was issued while a sample was unacknowledged, and a fault fired on user traffic or a reader departed (deleted / crashed)",
        quick_runs: 2500,
        thorough_runs: 200000,
        died_is_violation: true,
    }]
}

#[derive(Clone, Debug, Serialize, Deserialize, Default)]
struct P {
    heal_ms: u64,
    /// 0 none, 1 reader deleted, 2 participant crashed, 3 participant deleted
    departure: u8,
    bound_ms: u64,
    readers: Vec<(u32, bool, u32)>, // id, reliable, participant
}

fn plan_c03(seed: u64, tier: &str) -> Plan {
    let mut r = Rng::derive(seed, "wait-for-acks");
    let mut plan = base_plan("wait-for-acks", seed, tier, &mut r);
    // discovery data must not be fragmented here: a defect in handling disposals of SEDP samples that were
    // received as DATA_FRAG belongs to C16's findings, not to this property (attribution, DESIGN 4.4)
    plan.net.fragment_size = *r.pick(&[1344usize, 1344, 700, 1000, 2000, 4096, 65000]);
    let f = plan.net.fragment_size;
    let n_rp = r.usize(1, 2) as u32;
    let mut setup = vec![
        Op::CreateParticipant { p: 0, domain: 0, tag: String::new(), announce_ms: r.range(50, 2000), q: Q::default(), l: None },
        Op::CreateTopic { p: 0, id: 0, name: "T".into(), ty: Ty::Keyed, q: Q::default(), l: None },
        Op::CreatePublisher { p: 0, id: 0, q: Q::default(), l: None },
        Op::CreateWriter { id: 0, publisher: 0, topic: 0, q: Q { reliable: Some(true), history: Some(0), mbt_ms: Some(-1), ..Default::default() }, l: None },
    ];
    let mut readers = vec![];
    let mut rid = 0;
    for p in 1..=n_rp {
        setup.push(Op::CreateParticipant { p, domain: 0, tag: String::new(), announce_ms: r.range(50, 2000), q: Q::default(), l: None });
        setup.push(Op::CreateTopic { p, id: 0, name: "T".into(), ty: Ty::Keyed, q: Q::default(), l: None });
        setup.push(Op::CreateSubscriber { p, id: p, q: Q::default(), l: None });
        for _ in 0..r.usize(1, 2) {
            let reliable = r.chance(0.8);
            setup.push(Op::CreateReader { id: rid, subscriber: p, topic: 0, q: Q { reliable: Some(reliable), history: Some(0), ..Default::default() }, l: None });
            readers.push((rid, reliable, p));
            rid += 1;
        }
    }
    if !readers.iter().any(|x| x.1) {
        readers[0].1 = true;
        for op in setup.iter_mut() {
            if let Op::CreateReader { id: 0, q, .. } = op {
                q.reliable = Some(true);
            }
        }
    }
    setup.push(Op::WaitMatched { kind: "writer".into(), id: 0, n: readers.len() as i32, timeout_ms: 20_000 });
    setup.push(Op::Sleep { us: 200_000 });
    plan.phases.push(phase("setup", true, vec![script(setup)]));

    let t_end = 2_000 + r.range(200, 3000);
    if r.chance(0.75) {
        plan.net.rules.push(FaultRule { from_ms: 0, to_ms: t_end, src: None, dst: None, class: wire::C_USER, drop: r.f64() * 0.5, dup: r.f64() * 0.2, jitter_us: if r.chance(0.5) { r.range(0, 30_000) } else { 0 } });
    }
    plan.net.heal_ms = Some(t_end);

    let departure = r.weighted(&[5, 3, 2, 1]) as u8;
    let n = if tier == "quick" { r.usize(2, 10) } else { r.usize(2, 25) };
    let mut ops = vec![];
    let mut uid = 1;
    for _ in 0..n {
        match r.weighted(&[5, 3, 2]) {
            0 => {
                let len = if r.chance(0.3) { r.range(f as u64, 4 * f as u64 + 10).min(20_000) } else { r.range(0, 40) };
                ops.push(Op::W { w: 0, k: WKind::Write, key: r.below(3) as u8, len, x: uid as i32, name: String::new(), ts: None, h: H::None, uid });
                uid += 1;
            }
            1 => ops.push(Op::WaitAcks { w: 0, timeout_ms: *r.pick(&[1u64, 20, 200, 2000]), freeze_check: true }),
            _ => ops.push(Op::Sleep { us: *r.pick(&[0u64, 100, 10_000, 100_000]) }),
        }
    }
    ops.push(Op::W { w: 0, k: WKind::Write, key: 0, len: 8, x: uid as i32, name: String::new(), ts: None, h: H::None, uid });
    let mut clients = vec![script(ops)];
    let victim = readers.iter().filter(|x| x.1).last().cloned().unwrap();
    let when = r.range(0, 500_000);
    match departure {
        1 => clients.push(script(vec![Op::Sleep { us: when }, Op::DeleteReader { id: victim.0, via: None }])),
        2 => clients.push(script(vec![Op::Sleep { us: when }, Op::Crash { p: victim.2 }])),
        3 => clients.push(script(vec![Op::Sleep { us: when }, Op::DeleteContained { kind: "participant".into(), id: victim.2 }, Op::DeleteParticipant { p: victim.2 }])),
        _ => {}
    }
    // a second concurrent waiter
    if r.chance(0.4) {
        clients.push(script(vec![Op::Sleep { us: r.range(0, 300_000) }, Op::WaitAcks { w: 0, timeout_ms: 500, freeze_check: true }]));
    }
    plan.phases.push(phase("workload", false, clients));
    let bound_ms = if departure == 2 { 100_000 + 10_000 } else { 10_000 };
    plan.phases.push(phase("heal", true, vec![script(vec![Op::SleepUntil { ms: t_end }, Op::Mark { label: "healed".into() }, Op::WaitAcks { w: 0, timeout_ms: bound_ms, freeze_check: true }])]));
    plan.max_sim_ms = t_end + bound_ms + 60_000;
    plan.max_steps = 1_500_000;
    plan.params = serde_json::to_value(P { heal_ms: t_end, departure, bound_ms, readers }).unwrap();
    plan
}

fn check_c03(plan: &Plan, out: &Outcome) -> Verdict {
    let mut v = Verdict::default();
    let p: P = serde_json::from_value(plan.params.clone()).unwrap_or_default();
    if let Some(pn) = out.panics.first() {
        v.violate("C03", "C03.panic", format!("C03.panic {}", stream::panic_site(&pn.msg)), format!("dust-dds task panicked: {}", pn.msg));
        return v;
    }
    let rhandles: BTreeMap<[u8; 16], u32> = out.world.st.borrow().readers.iter().map(|(id, r)| (r.handle, *id)).collect();
    let mut waited_unacked = false;
    with_hist(|h| {
        // Ok writes with their return step
        let writes: Vec<(u32, u64)> = h.recs.iter().filter_map(|r| if let (Op::W { uid, k: WKind::Write, .. }, Res::Unit(Ok(()))) = (&r.op, &r.res) { Some((*uid, r.ret_step)) } else { None }).collect();
        for rec in &h.recs {
            let Op::WaitAcks { .. } = rec.op else { continue };
            let Res::AckCheck { res, matched, held } = &rec.res else { continue };
            v.probe("waitacks.calls", 1);
            match res {
                Ok(()) => {
                    v.probe("waitacks.ok", 1);
                    let must: Vec<u32> = writes.iter().filter(|w| w.1 <= rec.inv_step).map(|w| w.0).collect();
                    for mh in matched {
                        let Some(rid) = rhandles.get(mh) else { continue };
                        let reliable = p.readers.iter().any(|x| x.0 == *rid && x.1);
                        if !reliable {
                            continue;
                        }
                        // a reader whose deletion (or whose participant's crash / deletion) had begun before the call returned
                        // is no longer a matched reader the call must have waited for, and its cache cannot be read any more
                        let part = p.readers.iter().find(|x| x.0 == *rid).map(|x| x.2);
                        let departing = h.recs.iter().any(|d| {
                            d.inv_step <= rec.ret_step
                                && match &d.op {
                                    Op::DeleteReader { id, .. } => id == rid,
                                    Op::Crash { p } | Op::DeleteParticipant { p } => Some(*p) == part,
                                    Op::DeleteContained { kind, id } => (kind == "participant" && Some(*id) == part) || kind == "subscriber",
                                    _ => false,
                                }
                        });
                        if departing {
                            v.probe("waitacks.departing-reader-skipped", 1);
                            continue;
                        }
                        let Some((_, seqs)) = held.iter().find(|x| x.0 == *rid) else { continue };
                        let missing: Vec<&u32> = must.iter().filter(|u| !seqs.contains(u)).collect();
                        if !missing.is_empty() {
                            v.violate("C03", "C03.soundness", "C03.soundness".into(), format!("wait_for_acknowledgments returned Ok at step {} while matched reliable reader {rid} had not received seq {:?} (written before the call)", rec.ret_step, missing));
                        }
                    }
                }
                Err(E::SimTimeout) | Err(E::Timeout) => {
                    v.probe("waitacks.timeout", 1);
                    waited_unacked = true;
                }
                Err(e) => {
                    v.violate("C03", "C03.error", format!("C03.error {:?}", e), format!("wait_for_acknowledgments failed with {:?}", e));
                }
            }
        }
        // liveness: the last phase's call
        if let Some(rec) = h.recs.iter().rev().find(|r| r.phase == 2 && matches!(r.op, Op::WaitAcks { .. })) {
            match &rec.res {
                Res::AckCheck { res: Err(E::SimTimeout), .. } | Res::AckCheck { res: Err(E::Timeout), .. } | Res::Pending => {
                    let dep = ["none", "reader-deleted", "participant-crashed", "participant-deleted"][p.departure as usize];
                    let elapsed = out.sim_ns.saturating_sub(rec.inv_t) / 1_000_000;
                    if matches!(rec.res, Res::Pending) && elapsed < p.bound_ms {
                        v.inconclusive = true;
                    } else {
                        v.violate("C03", "C03.liveness", format!("C03.liveness departure={dep}"), format!("wait_for_acknowledgments did not complete within {} ms after the network healed (departure: {dep})", p.bound_ms));
                    }
                }
                _ => {}
            }
        } else {
            v.inconclusive = true;
        }
    });
    let st = |k: &str| out.stats.get(k).copied().unwrap_or(0);
    let faults = st("net.drop") + st("net.dup") + st("net.reorder");
    v.probe("departure", (p.departure != 0) as u64);
    v.nontrivial = waited_unacked && (faults > 0 || p.departure != 0) || (v.probes.get("waitacks.ok").copied().unwrap_or(0) > 0 && faults > 0);
    v
}

//! C06: no datagram can crash, hang or exhaust a running participant.

use super::*;
use crate::core::with_core;
use crate::hist::{with_hist, Res};
use crate::wire;

pub fn defs() -> Vec<ScenarioDef> {
    vec![ScenarioDef {
        name: "hostile-datagrams",
        prop: "C06",
        plan: plan_c06,
        check: check_c06,
        nontrivial_rule: "at least 10 hostile datagrams (mutated captures, crafted well-formed messages incl. spoofed source, or random bytes behind a valid header) were delivered to a participant with live endpoints",
        quick_runs: 2500,
        thorough_runs: 1_000_000,
        died_is_violation: true,
    }]
}

fn gen_mut(r: &mut Rng) -> Mut {
    let hostile16 = [0u16, 1, 3, 4, 0xFFFF, 0x8000, 256, 257];
    let hostile32 = [0u32, 1, 0xFFFF_FFFF, 0x8000_0000, 0x7FFF_FFFF, 256, 257, 0x0001_0000, 65537];
    match r.below(9) {
        0 => Mut::Flip { bit: r.below(8 * 600) as u32 },
        1 => Mut::Truncate { at: r.below(400) as u32 },
        2 => Mut::SetU8 { off: r.below(300) as u32, v: *r.pick(&[0u8, 1, 0x7f, 0x80, 0xff]) },
        3 => Mut::SetU16 { sub: r.below(5) as u32, off: r.below(40) as u32, v: *r.pick(&hostile16) },
        4 | 5 => Mut::SetU32 { sub: r.below(5) as u32, off: 4 * r.below(12) as u32, v: *r.pick(&hostile32) },
        6 => Mut::SubLen { sub: r.below(5) as u32, v: *r.pick(&hostile16) },
        7 => Mut::SubId { sub: r.below(5) as u32, v: r.below(256) as u8 },
        _ => Mut::FlipEndian { sub: r.below(5) as u32 },
    }
}

/// mutations aimed at the serialized payload of an accepted sample: lengths, counts, discriminators and
/// enumerations are 4-byte aligned words, so most mutations overwrite one such word with an extreme value
fn gen_payload_mut(r: &mut Rng) -> Mut {
    let hostile32 = [0u32, 1, 2, 0xFFFF_FFFF, 0x8000_0000, 0x7FFF_FFFF, 256, 257, 0x0001_0000, 65537, 0x00FF_FFFF, 100_000];
    match r.weighted(&[10, 3, 3, 2, 1]) {
        0 => Mut::SetU32 { sub: 0, off: 4 * r.below(90) as u32, v: *r.pick(&hostile32) },
        1 => Mut::SetU8 { off: r.below(360) as u32, v: *r.pick(&[0u8, 1, 2, 3, 0x7f, 0x80, 0xff]) },
        2 => Mut::Flip { bit: r.below(8 * 360) as u32 },
        3 => Mut::SetU16 { sub: 0, off: r.below(180) as u32, v: *r.pick(&[0u16, 1, 3, 4, 0xFFFF, 0x8000, 256]) },
        _ => Mut::Truncate { at: r.below(360) as u32 },
    }
}

fn gen_inject(r: &mut Rng, victim: u32, peer: u32, spoofing: bool) -> Op {
    let big = [0i64, 1, -1, 2, i64::MAX, i64::MIN, 1 << 32, (1 << 32) - 1, (1 << 32) + 1, 1 << 31, 255, 256, 257, 1_000_000, i32::MAX as i64, u32::MAX as i64, i64::MAX - 1, 3, 5, 10];
    let writers = [0x0000_0002i64, 0x0000_0102, 0x0001_00c2, 0x0000_03c2, 0x0000_04c2, 0x0000_02c2, 0x0002_00c2, 0x0003_00c3, 0x0003_00c4, 0x0000_0007, 0];
    let port = r.below(3) as u8;
    let spoof = if spoofing && r.chance(0.8) { Some(peer) } else { None };
    let generator = match r.weighted(&[5, 6, 1, if spoofing { 6 } else { 0 }]) {
        0 => InjectGen::Mutate {
            class: *r.pick(&[wire::C_ALL, wire::C_SPDP, wire::C_SEDP, wire::C_USER, wire::C_UFRAG | wire::C_UDATA]),
            nth: r.below(10_000) as u32,
            muts: (0..r.usize(1, 3)).map(|_| gen_mut(r)).collect(),
            foreign: !spoofing,
        },
        1 => {
            let kind = *r.pick(&["gap", "gap", "heartbeat", "acknack", "nackfrag", "datafrag", "datafrag", "data", "heartbeatfrag", "sub", "sub", "plist", "plist", "info", "info", "spdp"]);
            let (a, b, c, d) = match kind {
                "sub" => (r.below(256) as i64, r.below(256) as i64, *r.pick(&[0i64, 1, 3, 4, 8, 12, 24, 100, 3000]), r.below(256) as i64),
                "datafrag" if r.chance(0.4) => {
                    // self-consistent fragment arithmetic with the next expected sequence number: passes the reassembly
                    // gate, so whatever the announced sizes drive (allocation, loops) really happens
                    let n = *r.pick(&[1i64, 2, 0x8000, 0xFFFF]);
                    let fs = *r.pick(&[1i64, 64, 0x4000, 0x8000, 0xFFFF]);
                    let size = (n * fs - *r.pick(&[0i64, 0, 1])).clamp(1, 0xFFFF_FFFF);
                    (-2, 1, (n << 16) | fs, *r.pick(&[0x0000_0002i64, 0x0000_0102, 0x0000_03c2, 0x0000_04c2, 0x0000_02c2]) | (size << 32))
                }
                "datafrag" => (*r.pick(&big), *r.pick(&[0i64, 1, 2, 0xFFFF_FFFF, 1000]), (*r.pick(&[0i64, 1, 2, 0xFFFF]) << 16) | *r.pick(&[0i64, 1, 8, 1344, 0xFFFF]), *r.pick(&writers) | (*r.pick(&[0i64, 1, 100, 0xFFFF_FFFF, 70_000]) << 32)),
                "spdp" => (*r.pick(&[1i64, 2, 2, 2, 0, -1, 3, 0x0100_0000, 8]), *r.pick(&[7410i64, 0, 1, 65535, 65536, 0xFFFF_FFFF]), r.below(3) as i64, r.below(5) as i64),
                "plist" => (*r.pick(&[0x0050i64, 0x0005, 0x0007, 0x002c, 0x0029, 0x4014, 0x0031, 0x0058, 0x0075, 0x8000, 0x7fff]), *r.pick(&[0i64, 4, 8, 12, 16, 0xFFFC, 0xFFFF]), *r.pick(&[0i64, 1, 0xFFFF_FFFF, 0x7FFF_FFFF, 1000]), *r.pick(&writers)),
                _ => (*r.pick(&big), *r.pick(&big), *r.pick(&big), *r.pick(&writers)),
            };
            InjectGen::Craft { kind: kind.into(), spoof_p: spoof, a, b, c, d }
        }
        2 => {
            // random bytes behind a valid header
            let mut hex = String::from("52545053020401140a0000010000000101000000");
            for _ in 0..r.usize(0, 64) {
                hex.push_str(&format!("{:02x}", r.below(256)));
            }
            InjectGen::Raw { hex }
        }
        _ => InjectGen::Fresh {
            class: *r.pick(&[wire::C_SEDP, wire::C_SEDP, wire::C_SPDP, wire::C_UDATA, wire::C_UDATA]),
            nth: r.below(10_000) as u32,
            sn_off: *r.pick(&[0i64, 0, 0, 0, 1, -1, 5]),
            muts: (0..r.usize(0, 4)).map(|_| gen_payload_mut(r)).collect(),
        },
    };
    Op::Inject { dst_p: victim, port, generator, delay_us: r.range(0, 500) }
}

fn plan_c06(seed: u64, tier: &str) -> Plan {
    let mut r = Rng::derive(seed, "hostile-datagrams");
    let mut plan = base_plan("hostile-datagrams", seed, tier, &mut r);
    plan.net.capture = true;
    plan.net.latency_us = r.range(10, 2000);
    let q = || Q { reliable: Some(true), history: Some(0), ..Default::default() };
    // the victim's endpoints under attack: reliable or best effort, keep-all or keep-last
    let rel_a = r.chance(0.6);
    let rel_b = r.chance(0.6);
    let hist = *r.pick(&[0u32, 0, 1, 5]);
    let qa = Q { reliable: Some(rel_a), history: Some(hist), ..Default::default() };
    let qb = Q { reliable: Some(rel_b), history: Some(hist), ..Default::default() };
    let setup = vec![
        Op::CreateParticipant { p: 0, domain: 0, tag: String::new(), announce_ms: r.range(50, 500), q: Q::default(), l: None },
        Op::CreateTopic { p: 0, id: 0, name: "T".into(), ty: Ty::Keyed, q: Q::default(), l: None },
        Op::CreatePublisher { p: 0, id: 0, q: Q::default(), l: None },
        Op::CreateSubscriber { p: 0, id: 0, q: Q::default(), l: None },
        Op::CreateWriter { id: 0, publisher: 0, topic: 0, q: Q { mbt_ms: Some(100), durability: Some(1), ..qa.clone() }, l: None },
        Op::CreateParticipant { p: 1, domain: 0, tag: String::new(), announce_ms: r.range(50, 500), q: Q::default(), l: None },
        Op::CreateTopic { p: 1, id: 1, name: "T".into(), ty: Ty::Keyed, q: Q::default(), l: None },
        Op::CreatePublisher { p: 1, id: 1, q: Q::default(), l: None },
        Op::CreateSubscriber { p: 1, id: 1, q: Q::default(), l: None },
        Op::CreateReader { id: 0, subscriber: 1, topic: 1, q: Q { durability: Some(if rel_a { 1 } else { 0 }), ..qa.clone() }, l: None },
        // the victim also reads what the peer writes
        Op::CreateWriter { id: 1, publisher: 1, topic: 1, q: Q { mbt_ms: Some(100), ..qb.clone() }, l: None },
        Op::CreateReader { id: 1, subscriber: 0, topic: 0, q: qb.clone(), l: None },
        Op::WaitMatched { kind: "writer".into(), id: 0, n: 1, timeout_ms: 30_000 },
        Op::WaitMatched { kind: "reader".into(), id: 0, n: 1, timeout_ms: 30_000 },
        Op::W { w: 0, k: WKind::Write, key: 0, len: 3000, x: 0, name: "warm".into(), ts: None, h: H::None, uid: 900 },
        Op::W { w: 1, k: WKind::Write, key: 0, len: 10, x: 0, name: "warm".into(), ts: None, h: H::None, uid: 901 },
        Op::Sleep { us: 300_000 },
    ];
    plan.phases.push(phase("setup", true, vec![script(setup)]));
    let victim = r.below(2) as u32;
    let peer = 1 - victim;
    // an attacker that forges the identity of the discovered peer, or one that only sends under its own
    let spoofing = r.chance(0.7);
    let n_inj = if tier == "quick" { r.usize(10, 60) } else { r.usize(10, 200) };
    let mut inj = vec![];
    for _ in 0..n_inj {
        inj.push(gen_inject(&mut r, victim, peer, spoofing));
        if r.chance(0.5) {
            inj.push(Op::Sleep { us: *r.pick(&[0u64, 100, 2000, 60_000]) });
        }
    }
    let mut traffic = vec![];
    for i in 0..r.usize(2, 12) as u32 {
        traffic.push(Op::W { w: r.below(2) as u32, k: WKind::Write, key: r.below(3) as u8, len: *r.pick(&[0u64, 10, 2000, 5000]), x: i as i32, name: String::new(), ts: None, h: H::None, uid: 1000 + i });
        traffic.push(Op::Sleep { us: r.range(0, 100_000) });
    }
    plan.phases.push(phase("attack", false, vec![script(inj), script(traffic), daemon(vec![Op::Drain { r: 0, period_us: 5000, read_only: false }]), daemon(vec![Op::Drain { r: 1, period_us: 5000, read_only: false }])]));
    // afterwards: the victim answers API calls and communicates, in both directions, with a well-behaved participant
    // that joins now (its identity cannot have been forged during the attack). An attacker that forged the peer's
    // identity can legitimately desynchronise the (unauthenticated) reliable sessions with that peer, so the
    // sessions with the old peer are judged only when the attacker did not forge.
    let vp = victim;
    let mut after = vec![
        Op::Sleep { us: 500_000 },
        Op::Mark { label: "after".into() },
        Op::GetQos { kind: "participant".into(), id: vp },
        Op::Discovered { p: vp },
        Op::CreateParticipant { p: 2, domain: 0, tag: String::new(), announce_ms: 200, q: Q::default(), l: None },
        Op::CreatePublisher { p: 2, id: 2, q: Q::default(), l: None },
        Op::CreateSubscriber { p: 2, id: 2, q: Q::default(), l: None },
        Op::CreateTopic { p: vp, id: 50, name: "FreshA".into(), ty: Ty::Keyed, q: Q::default(), l: None },
        Op::CreateTopic { p: 2, id: 51, name: "FreshA".into(), ty: Ty::Keyed, q: Q::default(), l: None },
        Op::CreateTopic { p: vp, id: 52, name: "FreshB".into(), ty: Ty::Keyed, q: Q::default(), l: None },
        Op::CreateTopic { p: 2, id: 53, name: "FreshB".into(), ty: Ty::Keyed, q: Q::default(), l: None },
        Op::CreateWriter { id: 50, publisher: vp, topic: 50, q: Q { mbt_ms: Some(-1), ..q() }, l: None },
        Op::CreateReader { id: 50, subscriber: 2, topic: 51, q: q(), l: None },
        Op::CreateWriter { id: 51, publisher: 2, topic: 53, q: Q { mbt_ms: Some(-1), ..q() }, l: None },
        Op::CreateReader { id: 51, subscriber: vp, topic: 52, q: q(), l: None },
        Op::WaitMatched { kind: "writer".into(), id: 50, n: 1, timeout_ms: 30_000 },
        Op::WaitMatched { kind: "writer".into(), id: 51, n: 1, timeout_ms: 30_000 },
        Op::WaitMatched { kind: "reader".into(), id: 50, n: 1, timeout_ms: 30_000 },
        Op::WaitMatched { kind: "reader".into(), id: 51, n: 1, timeout_ms: 30_000 },
        Op::W { w: 50, k: WKind::Write, key: 1, len: 100, x: 1, name: String::new(), ts: None, h: H::None, uid: 5000 },
        Op::W { w: 51, k: WKind::Write, key: 1, len: 100, x: 1, name: String::new(), ts: None, h: H::None, uid: 5001 },
        Op::AwaitCount { r: 50, n: 1, timeout_ms: 30_000 },
        Op::AwaitCount { r: 51, n: 1, timeout_ms: 30_000 },
    ];
    after.push(Op::Whoami { p: 2 });
    if !spoofing {
        // markers on the sessions that existed during the attack
        after.push(Op::W { w: 0, k: WKind::Write, key: 2, len: 50, x: 777, name: String::new(), ts: None, h: H::None, uid: 6000 });
        after.push(Op::W { w: 1, k: WKind::Write, key: 2, len: 50, x: 777, name: String::new(), ts: None, h: H::None, uid: 6001 });
        after.push(Op::Sleep { us: 3_000_000 });
    }
    plan.phases.push(phase(
        "after",
        true,
        vec![
            script(after),
            daemon(vec![Op::Drain { r: 50, period_us: 5000, read_only: false }]),
            daemon(vec![Op::Drain { r: 51, period_us: 5000, read_only: false }]),
            daemon(vec![Op::Drain { r: 0, period_us: 5000, read_only: false }]),
            daemon(vec![Op::Drain { r: 1, period_us: 5000, read_only: false }]),
        ],
    ));
    plan.max_sim_ms = 600_000;
    plan.max_steps = 3_000_000;
    plan.params = serde_json::json!({ "victim": victim, "spoofing": spoofing });
    plan
}

fn check_c06(plan: &Plan, out: &Outcome) -> Verdict {
    let mut v = Verdict::default();
    for pn in &out.panics {
        let site = stream::panic_site(&pn.msg);
        v.violate("C06", "C06.panic", format!("C06.panic {site}"), format!("processing a datagram made a dust-dds task ({:?}) panic: {}", pn.class, pn.msg));
    }
    // an API call (e.g. take of a hostile user sample) that panics in the caller's thread
    let api_panic = with_hist(|h| h.recs.iter().find_map(|r| if let Res::Panic(m) = &r.res { if m.contains("todo") || m.contains("not yet implemented") { None } else { Some((serde_json::to_value(&r.op).unwrap()["t"].as_str().unwrap_or("?").to_string(), m.clone())) } } else { None }));
    if let Some((op, m)) = api_panic {
        v.violate("C06", "C06.api-panic", format!("C06.api-panic {op} {}", stream::panic_site(&m)), format!("the API call {op} panicked after hostile datagrams were received: {m}"));
    }
    let (excess, max_growth) = with_core(|c| (c.alloc_excess.clone(), c.max_worker_growth));
    if let Some((step, growth, bytes)) = excess.first() {
        v.violate("C06", "C06.allocation", "C06.allocation".into(), format!("at step {step} the worker's live heap grew by {growth} bytes while only {bytes} bytes of datagrams had been received since its previous run (bound: 1 MiB + 256 x received)"));
    }
    let injected = out.stats.get("net.inject").copied().unwrap_or(0);
    v.probe("injected", injected);
    v.probe("max_worker_heap_growth_kib", max_growth / 1024);
    if out.panics.iter().any(|p| p.class == crate::core::Class::Worker) {
        return v;
    }
    // The simulated participants get consecutive GUID prefixes, so a mutated datagram can by accident carry the
    // identity of the participant that joins afterwards. Pre-claiming an identity is forging it: the sessions of
    // that participant are then not judged (see the comment in the plan).
    let newcomer_forged = with_hist(|h| {
        let mine: Option<[u8; 16]> = h.recs.iter().find_map(|r| if let (2, Op::Whoami { p: 2 }, Res::Handle(x)) = (r.phase, &r.op, &r.res) { Some(*x) } else { None });
        match mine {
            Some(hd) => crate::net::with_net(|n| n.wire.iter().any(|w| w.src.is_none() && w.bytes.as_ref().is_some_and(|b| b.windows(12).any(|x| x == &hd[..12])))),
            None => false,
        }
    });
    v.probe("newcomer_identity_forged", newcomer_forged as u64);
    with_hist(|h| {
        if h.recs.iter().any(|r| r.phase == 0 && (r.res.err().is_some() || matches!(r.res, Res::Panic(_) | Res::Skipped(_)))) {
            v.inconclusive = true;
            return;
        }
        let after: Vec<&crate::hist::Rec> = h.recs.iter().filter(|r| r.phase == 2 && r.client == 0).collect();
        if after.is_empty() && out.completed_phases < 2 {
            v.violate("C06", "C06.unresponsive", "C06.unresponsive attack-phase".into(), "the attack phase did not finish: a call of the regular traffic never returned".into());
            return;
        }
        for r in &after {
            match (&r.op, &r.res) {
                (_, Res::Pending) => {
                    v.violate("C06", "C06.unresponsive", format!("C06.unresponsive {}", serde_json::to_value(&r.op).unwrap()["t"].as_str().unwrap_or("?")), format!("after the hostile traffic the call {} never returned", serde_json::to_string(&r.op).unwrap()));
                    break;
                }
                (Op::WaitMatched { .. } | Op::AwaitCount { .. }, Res::Unit(Err(_))) if newcomer_forged => {}
                (Op::WaitMatched { .. }, Res::Unit(Err(_))) => {
                    v.violate("C06", "C06.fresh-endpoints-unmatched", "C06.fresh-endpoints-unmatched".into(), "endpoints created after the hostile traffic did not match within 30 s".into());
                    break;
                }
                (Op::AwaitCount { r: rd, .. }, Res::Unit(Err(_))) => {
                    v.violate("C06", "C06.fresh-endpoints-no-data", "C06.fresh-endpoints-no-data".into(), format!("a sample written on fresh endpoints after the hostile traffic was not delivered to reader {rd} within 30 s"));
                }
                (Op::GetQos { .. } | Op::Discovered { .. } | Op::CreateTopic { .. } | Op::CreateWriter { .. } | Op::CreateReader { .. }, res) if res.err().is_some() || matches!(res, Res::Panic(_)) => {
                    v.violate("C06", "C06.api-error", "C06.api-error".into(), format!("after the hostile traffic {} failed: {:?}", serde_json::to_string(&r.op).unwrap(), res));
                }
                _ => {}
            }
        }
    });
    if plan.params["spoofing"] == serde_json::json!(false) && v.violations.is_empty() && !v.inconclusive {
        with_hist(|h| {
            for (rd, wr) in [(0u32, 0u32), (1, 1)] {
                let wrote_ok = h.recs.iter().any(|r| r.phase == 2 && matches!(&r.op, Op::W { w, x: 777, .. } if *w == wr) && matches!(r.res, Res::Unit(Ok(()))));
                let got = h.reader_logs.get(&rd).is_some_and(|l| l.iter().any(|x| x.2.valid && x.2.x == 777));
                if wrote_ok && !got {
                    v.violate("C06", "C06.session-broken", format!("C06.session-broken reader={rd}"), format!("after hostile traffic from a foreign (unforged) source, a sample written on writer {wr} was not delivered to the matched reader {rd} of the well-behaved peer within 3 s"));
                }
            }
        });
    }
    v.nontrivial = injected >= 10;
    v
}

//! C04 durability: late TRANSIENT_LOCAL readers get the retained history, VOLATILE readers do not.

use super::*;
use crate::hist::{with_hist, Res, E};
use crate::net::FaultRule;
use crate::wire;

pub fn defs() -> Vec<ScenarioDef> {
    vec![ScenarioDef {
        name: "late-joiner",
        prop: "C04",
        plan: plan_c04,
        check: check_c04,
        nontrivial_rule: "at least one reader was created after at least one sample had been written and a fault fired on user traffic or the reader joined within 1 ms of a write",
        quick_runs: 2500,
        thorough_runs: 200000,
        died_is_violation: true,
    }]
}

#[derive(Clone, Debug, Serialize, Deserialize, Default)]
struct P {
    heal_ms: u64,
    bound_ms: u64,
    depth: u32,
    /// (reader id, transient_local, reliable)
    readers: Vec<(u32, bool, bool)>,
}

fn plan_c04(seed: u64, tier: &str) -> Plan {
    let mut r = Rng::derive(seed, "late-joiner");
    let mut plan = base_plan("late-joiner", seed, tier, &mut r);
    plan.net.fragment_size = *r.pick(&[1344usize, 1344, 700, 1000, 2000, 4096, 65000]);
    let f = plan.net.fragment_size as u64;
    let depth = if r.chance(0.3) { 0 } else { r.range(1, 5) as u32 };
    let n_inst = r.range(1, 4);
    let mut setup = vec![
        Op::CreateParticipant { p: 0, domain: 0, tag: String::new(), announce_ms: r.range(50, 1000), q: Q::default(), l: None },
        Op::CreateTopic { p: 0, id: 0, name: "T".into(), ty: Ty::Keyed, q: Q::default(), l: None },
        Op::CreatePublisher { p: 0, id: 0, q: Q::default(), l: None },
        Op::CreateWriter { id: 0, publisher: 0, topic: 0, q: Q { reliable: Some(true), durability: Some(1), history: Some(depth), mbt_ms: Some(-1), ..Default::default() }, l: None },
        Op::CreateParticipant { p: 1, domain: 0, tag: String::new(), announce_ms: r.range(50, 1000), q: Q::default(), l: None },
        Op::CreateTopic { p: 1, id: 0, name: "T".into(), ty: Ty::Keyed, q: Q::default(), l: None },
        Op::CreateSubscriber { p: 1, id: 1, q: Q::default(), l: None },
    ];
    // optionally a second TRANSIENT_LOCAL writer in a participant of its own: a late reader has to catch up with both
    let two_writers = r.chance(0.5);
    if two_writers {
        setup.push(Op::CreateParticipant { p: 2, domain: 0, tag: String::new(), announce_ms: r.range(50, 1000), q: Q::default(), l: None });
        setup.push(Op::CreateTopic { p: 2, id: 2, name: "T".into(), ty: Ty::Keyed, q: Q::default(), l: None });
        setup.push(Op::CreatePublisher { p: 2, id: 2, q: Q::default(), l: None });
        setup.push(Op::CreateWriter { id: 1, publisher: 2, topic: 2, q: Q { reliable: Some(true), durability: Some(1), history: Some(depth), mbt_ms: Some(-1), ..Default::default() }, l: None });
    }
    // optionally an early reader so that the writer has somebody to talk to from the start
    let mut readers = vec![];
    let mut rid = 0u32;
    if r.chance(0.5) {
        setup.push(Op::CreateReader { id: rid, subscriber: 1, topic: 0, q: Q { reliable: Some(true), durability: Some(1), history: Some(0), ..Default::default() }, l: None });
        setup.push(Op::WaitMatched { kind: "writer".into(), id: 0, n: 1, timeout_ms: 20_000 });
        readers.push((rid, true, true));
        rid += 1;
    } else {
        setup.push(Op::Sleep { us: 1_500_000 });
    }
    plan.phases.push(phase("setup", true, vec![script(setup)]));

    let t_end = 3_000 + r.range(200, 3000);
    if r.chance(0.7) {
        plan.net.rules.push(FaultRule { from_ms: 0, to_ms: t_end, src: None, dst: None, class: wire::C_USER, drop: r.f64() * 0.45, dup: r.f64() * 0.2, jitter_us: if r.chance(0.5) { r.range(0, 30_000) } else { 0 } });
    }
    plan.net.heal_ms = Some(t_end);

    // writer client: writes, pause, more writes
    let n_pre = r.usize(1, if tier == "quick" { 8 } else { 20 });
    let n_post = r.usize(0, 6);
    let mut uid = 1u32;
    let mut wops = vec![];
    let mut gen_write = |r: &mut Rng, uid: &mut u32| {
        let len = if r.chance(0.2) { r.range(f, 3 * f + 10).min(20_000) } else { r.range(0, 40) };
        let op = Op::W { w: 0, k: WKind::Write, key: r.below(n_inst) as u8, len, x: *uid as i32, name: String::new(), ts: None, h: H::None, uid: *uid };
        *uid += 1;
        op
    };
    let mut t_writes_us = 0u64;
    for _ in 0..n_pre {
        wops.push(gen_write(&mut r, &mut uid));
        let s = *r.pick(&[0u64, 50, 1000, 20_000]);
        t_writes_us += s + 200;
        wops.push(Op::Sleep { us: s });
    }
    let join_style = r.weighted(&[3, 3, 2]);
    let join_at_us = match join_style {
        0 => t_writes_us + r.range(1000, 400_000),       // well after the pre-writes
        1 => t_writes_us.saturating_sub(r.range(0, 300)), // racing the last pre-write
        _ => r.range(0, t_writes_us + 1),                 // in the middle
    };
    wops.push(Op::Sleep { us: r.range(0, 500_000) });
    for _ in 0..n_post {
        wops.push(gen_write(&mut r, &mut uid));
        wops.push(Op::Sleep { us: *r.pick(&[0u64, 1000, 50_000]) });
    }
    let mut clients = vec![script(wops)];
    if two_writers {
        // the second writer's history (its own instances, so that KEEP_LAST retention stays per writer and key)
        let mut w2 = vec![];
        for i in 0..r.usize(1, 4) as u32 {
            w2.push(Op::W { w: 1, k: WKind::Write, key: 10 + r.below(2) as u8, len: r.range(0, 40), x: 5000 + i as i32, name: String::new(), ts: None, h: H::None, uid: 5000 + i });
            w2.push(Op::Sleep { us: *r.pick(&[0u64, 50, 1000]) });
        }
        clients.push(script(w2));
    }
    // joiner client
    let mut jops = vec![Op::Sleep { us: join_at_us }];
    let n_join = r.usize(1, 3);
    let mut late = vec![];
    for _ in 0..n_join {
        let tl = r.chance(0.6);
        let reliable = if tl { true } else { r.chance(0.6) };
        jops.push(Op::CreateReader { id: rid, subscriber: 1, topic: 0, q: Q { reliable: Some(reliable), durability: Some(if tl { 1 } else { 0 }), history: Some(0), ..Default::default() }, l: None });
        readers.push((rid, tl, reliable));
        late.push((rid, tl));
        rid += 1;
        if r.chance(0.5) {
            jops.push(Op::Sleep { us: r.range(0, 2000) });
        }
    }
    for (id, tl) in &late {
        if *tl && r.chance(0.6) {
            jops.push(Op::WaitHistorical { r: *id, timeout_ms: *r.pick(&[5u64, 100, 2000]), freeze_check: true });
        }
    }
    clients.push(script(jops));
    plan.phases.push(phase("workload", false, clients));

    let bound_ms = 30_000;
    let mut hops = vec![Op::SleepUntil { ms: t_end }, Op::Mark { label: "healed".into() }];
    for (id, tl, _) in &readers {
        if *tl {
            hops.push(Op::WaitHistorical { r: *id, timeout_ms: bound_ms, freeze_check: true });
        }
    }
    hops.push(Op::Sleep { us: 3_000_000 });
    for (id, _, _) in &readers {
        hops.push(Op::R { r: *id, k: ReadKind::Take, max: i32::MAX, m: Masks::default(), h: H::None, key: 0 });
    }
    plan.phases.push(phase("heal", true, vec![script(hops)]));
    plan.max_sim_ms = t_end + 3 * bound_ms + 60_000;
    plan.params = serde_json::to_value(P { heal_ms: t_end, bound_ms, depth, readers }).unwrap();
    plan
}

/// of `writes` (uid, key) in order, the ones retained by KEEP_LAST(depth) / KEEP_ALL (depth 0)
fn retained(writes: &[(u32, u8)], depth: u32) -> Vec<u32> {
    if depth == 0 {
        return writes.iter().map(|w| w.0).collect();
    }
    let mut per: BTreeMap<u8, Vec<u32>> = BTreeMap::new();
    for (u, k) in writes {
        per.entry(*k).or_default().push(*u);
    }
    let mut out = vec![];
    for (_, l) in per {
        let n = l.len();
        out.extend(l.into_iter().skip(n.saturating_sub(depth as usize)));
    }
    out
}

fn check_c04(plan: &Plan, out: &Outcome) -> Verdict {
    let mut v = Verdict::default();
    let p: P = serde_json::from_value(plan.params.clone()).unwrap_or_default();
    if let Some(pn) = out.panics.first() {
        v.violate("C04", "C04.panic", format!("C04.panic {}", stream::panic_site(&pn.msg)), format!("dust-dds task panicked: {}", pn.msg));
        return v;
    }
    let healed = with_hist(|h| h.marks.iter().find(|m| m.0 == "healed").map(|m| m.2));
    let whandles: Vec<[u8; 16]> = out.world.st.borrow().writers.values().map(|w| w.handle).collect();
    let whandle_of: BTreeMap<u32, [u8; 16]> = out.world.st.borrow().writers.iter().map(|(i, w)| (*i, w.handle)).collect();
    let mut raced = false;
    with_hist(|h| {
        // all write records (uid, key, inv_step, ret_step, ok)
        let writes: Vec<(u32, u8, u64, u64, bool)> = h.recs.iter().filter_map(|r| if let Op::W { uid, key, k: WKind::Write, .. } = &r.op { Some((*uid, *key, r.inv_step, r.ret_step, matches!(r.res, Res::Unit(Ok(()))))) } else { None }).collect();
        let writer_of: BTreeMap<u32, u32> = h.recs.iter().filter_map(|r| if let Op::W { uid, w, k: WKind::Write, .. } = &r.op { Some((*uid, *w)) } else { None }).collect();
        let write_times: Vec<u64> = h.recs.iter().filter(|r| matches!(r.op, Op::W { .. })).map(|r| r.inv_t).collect();
        for (rid, tl, reliable) in &p.readers {
            let Some(crec) = h.recs.iter().find(|r| matches!(&r.op, Op::CreateReader { id, .. } if id == rid)) else { continue };
            if !matches!(crec.res, Res::Handle(_)) {
                continue;
            }
            let late = writes.iter().any(|w| w.4 && w.3 <= crec.inv_step);
            if late {
                v.probe("late_readers", 1);
                if write_times.iter().any(|t| t.abs_diff(crec.inv_t) < 1_000_000) {
                    raced = true;
                }
            }
            let empty = vec![];
            let log = h.reader_logs.get(rid).unwrap_or(&empty);
            let got: Vec<u32> = log.iter().filter(|x| x.2.valid).map(|x| x.2.seq).collect();
            if !*tl {
                // VOLATILE: nothing whose write returned before the reader's creation was invoked
                for w in writes.iter().filter(|w| w.4 && w.3 <= crec.inv_step) {
                    if got.contains(&w.0) {
                        v.violate("C04", "C04.volatile-got-history", format!("C04.volatile-got-history reliable={reliable}"), format!("VOLATILE reader {rid} (created at step {}) presented seq {} whose write had returned at step {}", crec.inv_step, w.0, w.3));
                    }
                }
                continue;
            }
            if !*reliable {
                continue;
            }
            // wait_for_historical_data soundness at each completion
            for rec in h.recs.iter().filter(|r| matches!(&r.op, Op::WaitHistorical { r, .. } if r == rid)) {
                let Res::AckCheck { res, held, matched } = &rec.res else { continue };
                match res {
                    Ok(()) => {
                        v.probe("wait_historical.ok", 1);
                        let Some((_, seqs)) = held.first() else { continue };
                        // only judged when the reader knew the writer at completion: with no matched
                        // writer there is no historical data to wait for (standard DDS behaviour)
                        if !matched.iter().any(|m| whandles.contains(m)) {
                            v.probe("wait_historical.ok_unmatched", 1);
                            continue;
                        }
                        // conservative retained set: count every write invoked before the completion
                        let considered: Vec<(u32, u8)> = writes.iter().filter(|w| w.2 <= rec.ret_step && (w.4 || w.3 > rec.ret_step)).map(|w| (w.0, w.1)).collect();
                        let keep = retained(&considered, p.depth);
                        // of the writers the reader knew at completion
                        let known_writer = |uid: &u32| writer_of.get(uid).and_then(|w| whandle_of.get(w)).is_some_and(|hd| matched.contains(hd));
                        let historical: Vec<u32> = writes.iter().filter(|w| w.4 && w.3 <= crec.inv_step && keep.contains(&w.0) && known_writer(&w.0)).map(|w| w.0).collect();
                        let missing: Vec<&u32> = historical.iter().filter(|u| !seqs.contains(u)).collect();
                        if !missing.is_empty() {
                            v.violate("C04", "C04.wait-historical-early", "C04.wait-historical-early".into(), format!("wait_for_historical_data of reader {rid} returned Ok at step {} while retained historical samples {:?} had not been received", rec.ret_step, missing));
                        }
                    }
                    Err(E::SimTimeout) | Err(E::Timeout) => {
                        v.probe("wait_historical.timeout", 1);
                        if rec.phase == 2 {
                            v.violate("C04", "C04.wait-historical-liveness", "C04.wait-historical-liveness".into(), format!("wait_for_historical_data of reader {rid} did not complete within {} ms after heal", p.bound_ms));
                        }
                    }
                    Err(e) => v.violate("C04", "C04.wait-historical-error", format!("C04.wait-historical-error {:?}", e), format!("wait_for_historical_data failed: {:?}", e)),
                }
            }
            // liveness: final retained history that was written before the reader's creation
            if out.completed_phases == plan.phases.len() && healed.is_some() {
                let all_ok: Vec<(u32, u8)> = writes.iter().filter(|w| w.4).map(|w| (w.0, w.1)).collect();
                let keep = retained(&all_ok, p.depth);
                let expected: Vec<u32> = keep.clone();
                let missing: Vec<&u32> = expected.iter().filter(|u| !got.contains(u)).collect();
                if !missing.is_empty() {
                    let hist_missing = missing.iter().any(|u| writes.iter().any(|w| w.0 == **u && w.3 <= crec.inv_step));
                    v.violate(
                        "C04",
                        "C04.history-missing",
                        format!("C04.history-missing historical={hist_missing} late={late}"),
                        format!("TRANSIENT_LOCAL reliable reader {rid} never presented retained samples {:?} (writer history depth {}, reader created at step {})", missing, p.depth, crec.inv_step),
                    );
                }
                // exactly once
                let mut s = got.clone();
                s.sort();
                let n = s.len();
                s.dedup();
                if s.len() != n {
                    v.violate("C04", "C04.duplicate", "C04.duplicate".into(), format!("reader {rid} presented a sample twice"));
                }
            } else if healed.is_none() {
                v.inconclusive = true;
            }
        }
    });
    let st = |k: &str| out.stats.get(k).copied().unwrap_or(0);
    let faults = st("net.drop") + st("net.dup") + st("net.reorder");
    v.nontrivial = v.probes.get("late_readers").copied().unwrap_or(0) > 0 && (faults > 0 || raced);
    v
}

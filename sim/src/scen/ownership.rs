//! C24: exclusive ownership - only the strongest live writer affects an instance.

use super::*;
use crate::hist::{with_hist, Rec, Res};

pub fn defs() -> Vec<ScenarioDef> {
    vec![ScenarioDef {
        name: "ownership",
        prop: "C24",
        plan: plan_c24,
        check: check_c24,
        nontrivial_rule: "at least two writers of different strength wrote the same instance and ownership had to change at least once (owner unregistered, deleted, crashed or missed its deadline, or a stronger writer appeared)",
        quick_runs: 2000,
        thorough_runs: 100000,
        died_is_violation: true,
    }]
}

#[derive(Clone, Debug, Serialize, Deserialize, Default)]
struct P {
    /// writer id -> (strength, participant)
    writers: Vec<(u32, i32, u32)>,
    deadline_ms: Option<u64>,
}

fn plan_c24(seed: u64, tier: &str) -> Plan {
    let mut r = Rng::derive(seed, "ownership");
    let mut plan = base_plan("ownership", seed, tier, &mut r);
    plan.net.fragment_size = 1344;
    plan.net.latency_us = r.range(10, 2000);
    let deadline_ms = if r.chance(0.5) { Some(400u64) } else { None };
    let dl = deadline_ms.map(|d| d * 1_000_000);
    let n_w = r.range(2, 3) as u32;
    let wq = |s: i32| Q { reliable: Some(true), history: Some(0), mbt_ms: Some(-1), exclusive: true, strength: s, deadline_ns: dl, autodispose: Some(false), ..Default::default() };
    // In a third of the runs both readers also have a TIME_BASED_FILTER of 100 ms and every write comes at least 130 ms
    // after the previous one, so that every written sample passes the filter while an unregister that follows a write
    // directly falls inside the separation: giving the instance up must not depend on that notification being kept.
    // (decided from a stream of its own, so that the other choices of a seed stay what they were)
    let tbf = Rng::derive(seed, "ownership-tbf").chance(0.34);
    let rq = Q { reliable: Some(true), history: Some(0), exclusive: true, deadline_ns: dl, tbf_ns: if tbf { Some(100_000_000) } else { None }, ..Default::default() };
    let mut setup = vec![];
    // participants: 0 and 3 hold writers, 1 and 2 hold one reader each
    for p in 0..4u32 {
        setup.push(Op::CreateParticipant { p, domain: 0, tag: String::new(), announce_ms: r.range(50, 500), q: Q::default(), l: None });
        setup.push(Op::CreateTopic { p, id: p, name: "T".into(), ty: Ty::Keyed, q: Q::default(), l: None });
    }
    setup.push(Op::CreatePublisher { p: 0, id: 0, q: Q::default(), l: None });
    setup.push(Op::CreatePublisher { p: 3, id: 3, q: Q::default(), l: None });
    let mut writers = vec![];
    for w in 0..n_w {
        let s = *r.pick(&[0, 5, 5, 10]);
        let p = if w == n_w - 1 && r.chance(0.4) { 3 } else { 0 };
        setup.push(Op::CreateWriter { id: w, publisher: p, topic: p, q: wq(s), l: None });
        writers.push((w, s, p));
    }
    for (i, p) in [1u32, 2].iter().enumerate() {
        setup.push(Op::CreateSubscriber { p: *p, id: *p, q: Q::default(), l: None });
        setup.push(Op::CreateReader { id: i as u32, subscriber: *p, topic: *p, q: rq.clone(), l: None });
    }
    for (w, _, _) in &writers {
        setup.push(Op::WaitMatched { kind: "writer".into(), id: *w, n: 2, timeout_ms: 30_000 });
    }
    for rd in 0..2 {
        setup.push(Op::WaitMatched { kind: "reader".into(), id: rd, n: n_w as i32, timeout_ms: 30_000 });
    }
    setup.push(Op::Sleep { us: 200_000 });
    plan.phases.push(phase("setup", true, vec![script(setup)]));
    let n = if tier == "quick" { r.usize(4, 16) } else { r.usize(4, 30) };
    let mut ops = vec![];
    let mut uid = 1u32;
    let mut alive: Vec<u32> = writers.iter().map(|w| w.0).collect();
    let mut crashed = false;
    let mut registered: Vec<(u32, u8)> = vec![];
    for _ in 0..n {
        if alive.is_empty() {
            break;
        }
        match r.weighted(&[8, 2, 1, if deadline_ms.is_some() { 2 } else { 0 }, 1]) {
            0 => {
                let w = *r.pick(&alive);
                let key = r.below(2) as u8;
                if !registered.contains(&(w, key)) {
                    registered.push((w, key));
                }
                if tbf {
                    ops.push(Op::Sleep { us: 130_000 });
                }
                ops.push(Op::W { w, k: WKind::Write, key, len: 4, x: uid as i32, name: String::new(), ts: None, h: H::None, uid });
                ops.push(Op::WaitAcks { w, timeout_ms: 20_000, freeze_check: false });
                uid += 1;
            }
            1 => {
                let cands: Vec<(u32, u8)> = registered.iter().copied().filter(|x| alive.contains(&x.0)).collect();
                if cands.is_empty() {
                    continue;
                }
                let (w, key) = *r.pick(&cands);
                registered.retain(|x| *x != (w, key));
                ops.push(Op::W { w, k: WKind::Unregister, key, len: 0, x: 0, name: String::new(), ts: None, h: H::None, uid });
                ops.push(Op::WaitAcks { w, timeout_ms: 20_000, freeze_check: false });
                uid += 1;
            }
            2 => {
                if alive.len() > 1 {
                    let i = r.below(alive.len() as u64) as usize;
                    let w = alive.remove(i);
                    ops.push(Op::DeleteWriter { id: w, via: None });
                    ops.push(Op::Quiesce { quiet_ms: 500, cap_ms: 10_000 });
                }
            }
            3 => ops.push(Op::Sleep { us: deadline_ms.unwrap() * 1500 + 60_000 }),
            _ => {
                if !crashed && writers.iter().any(|w| w.2 == 3 && alive.contains(&w.0)) && alive.len() > 1 {
                    crashed = true;
                    alive.retain(|w| writers.iter().find(|x| x.0 == *w).unwrap().2 != 3);
                    ops.push(Op::Crash { p: 3 });
                    ops.push(Op::Sleep { us: 112_000_000 });
                }
            }
        }
    }
    ops.push(Op::Sleep { us: 300_000 });
    // the readers are drained continuously: what they present must not depend on later departures
    plan.phases.push(phase("history", false, vec![script(ops), daemon(vec![Op::Drain { r: 0, period_us: 5000, read_only: false }]), daemon(vec![Op::Drain { r: 1, period_us: 5000, read_only: false }])]));
    plan.max_sim_ms = 3_600_000;
    plan.max_steps = 3_000_000;
    plan.params = serde_json::to_value(P { writers, deadline_ms }).unwrap();
    plan
}

fn check_c24(plan: &Plan, out: &Outcome) -> Verdict {
    let mut v = Verdict::default();
    let p: P = serde_json::from_value(plan.params.clone()).unwrap_or_default();
    if let Some(pn) = out.panics.first() {
        v.violate("C24", "C24.panic", format!("C24.panic {}", stream::panic_site(&pn.msg)), format!("dust-dds task panicked: {}", pn.msg));
        return v;
    }
    if out.completed_phases != plan.phases.len() {
        v.inconclusive = true;
        return v;
    }
    let strength = |w: u32| p.writers.iter().find(|x| x.0 == w).map(|x| x.1).unwrap_or(0);
    let d_ns = p.deadline_ms.map(|d| d * 1_000_000);
    let mut ownership_changes = 0u64;
    let mut distinct_strengths = false;
    with_hist(|h| {
        if h.recs.iter().any(|r| r.phase == 0 && (r.res.err().is_some() || matches!(r.res, Res::Panic(_) | Res::Skipped(_)))) {
            v.inconclusive = true;
            return;
        }
        let recs: Vec<&Rec> = h.recs.iter().filter(|r| r.phase == 1 && r.client == 0).collect();
        // per reader: the uids it presented
        let presented: Vec<Vec<u32>> = (0..2u32).map(|rd| h.reader_logs.get(&rd).map(|l| l.iter().filter(|x| x.2.valid).map(|x| x.2.seq).collect()).unwrap_or_default()).collect();
        // model: per key, registered writers with their last write time
        let mut reg: BTreeMap<u8, BTreeMap<u32, u64>> = BTreeMap::new();
        let mut gone: Vec<u32> = vec![];
        let mut last_release: BTreeMap<u8, u64> = BTreeMap::new();
        let mut last_release_all: u64 = 0;
        // sticky owner per reader and key (for ties)
        let mut sticky: [BTreeMap<u8, u32>; 2] = [BTreeMap::new(), BTreeMap::new()];
        let mut boundary_uids: Vec<u32> = vec![];
        let mut i = 0;
        while i < recs.len() {
            let rec = recs[i];
            i += 1;
            match &rec.op {
                Op::W { w, k, key, uid, .. } => {
                    let acked = recs.get(i).is_some_and(|n| matches!(&n.op, Op::WaitAcks { .. }) && matches!(&n.res, Res::AckCheck { res: Ok(()), .. }));
                    if !matches!(rec.res, Res::Unit(Ok(()))) || !acked {
                        v.inconclusive = true;
                        return;
                    }
                    i += 1;
                    let t = rec.ret_t;
                    match k {
                        WKind::Write => {
                            // writers that currently count for this instance: registered, not gone, within their deadline
                            let others: Vec<(u32, i32, bool)> = reg
                                .get(key)
                                .map(|m| {
                                    m.iter()
                                        .filter(|(o, _)| **o != *w && !gone.contains(o))
                                        .map(|(o, last)| {
                                            let age = t.saturating_sub(*last);
                                            // (writer, strength, certainly within deadline)
                                            let certain = d_ns.is_none_or(|d| age < d * 8 / 10);
                                            let expired = d_ns.is_some_and(|d| age > d * 12 / 10);
                                            (*o, strength(*o), certain || !expired && false, expired)
                                        })
                                        .filter(|x| !x.3)
                                        .map(|x| (x.0, x.1, x.2))
                                        .collect()
                                })
                                .unwrap_or_default();
                            // another writer of this instance is about to miss (or has just missed) its deadline: whether a
                            // reader has already noticed depends on when that reader received the last sample and when its
                            // worker looks, so two readers may legitimately differ on this one sample
                            if d_ns.is_some_and(|d| reg.get(key).is_some_and(|m| m.iter().any(|(o, last)| *o != *w && !gone.contains(o) && { let age = t.saturating_sub(*last); age >= d * 8 / 10 && age <= d * 12 / 10 + 60_000_000 }))) {
                                boundary_uids.push(*uid);
                            }
                            let sw = strength(*w);
                            let stronger_certain = others.iter().any(|o| o.1 > sw && o.2);
                            let stronger_possible = others.iter().any(|o| o.1 > sw);
                            let equal = others.iter().any(|o| o.1 == sw);
                            if others.iter().any(|o| o.1 != sw) {
                                distinct_strengths = true;
                            }
                            for rd in 0..2 {
                                let got = presented[rd].contains(uid);
                                if got && stronger_certain {
                                    let o = others.iter().find(|o| o.1 > sw && o.2).unwrap();
                                    // Did the stronger writer write this instance after the last event that can leave the reader
                                    // without an owner (unregister, writer deletion, participant crash, possible deadline miss)?
                                    // Then the reader has seen it take the instance over and must still know it as the owner.
                                    let established = d_ns.is_none() && reg[key][&o.0] > last_release.get(key).copied().unwrap_or(0).max(last_release_all);
                                    v.violate("C24", "C24.weaker-presented", if established { "C24.weaker-presented owner-established".to_string() } else { "C24.weaker-presented".to_string() }, format!("reader {rd} presented seq {uid} of writer {w} (strength {sw}) on instance {key} while writer {} (strength {}) is alive, has the instance registered and wrote it {} ms before", o.0, o.1, (t - reg[key][&o.0]) / 1_000_000));
                                }
                                // (judged only when the draining observers had time to see the sample: a minimised plan may
                                // end directly after the write)
                                if !got && !stronger_possible && !equal && out.sim_ns.saturating_sub(t) > 100_000_000 {
                                    v.violate("C24", "C24.owner-not-presented", format!("C24.owner-not-presented after_departure={}", !gone.is_empty()), format!("reader {rd} did not present seq {uid} of writer {w} (strength {sw}) on instance {key} although no other live writer of that instance is as strong (writers gone: {:?})", gone));
                                }
                                if equal && !stronger_possible {
                                    // tie: whoever the reader chose must stay until an event
                                    if got {
                                        if let Some(prev) = sticky[rd].get(key) {
                                            // a flip between equally strong writers only: taking the instance over from a weaker
                                            // previous owner is what ownership strength is for
                                            if *prev != *w && strength(*prev) == sw && others.iter().any(|o| o.0 == *prev && o.2) {
                                                v.violate("C24", "C24.tie-flip", "C24.tie-flip".into(), format!("reader {rd} presented seq {uid} of writer {w} on instance {key} although the equally strong writer {prev} owns it and is still live"));
                                            }
                                        }
                                        sticky[rd].insert(*key, *w);
                                    }
                                } else if got {
                                    if sticky[rd].get(key).is_some_and(|o| o != w) {
                                        ownership_changes += 1;
                                    }
                                    sticky[rd].insert(*key, *w);
                                }
                            }
                            reg.entry(*key).or_default().insert(*w, t);
                        }
                        WKind::Unregister => {
                            last_release.insert(*key, t);
                            if let Some(m) = reg.get_mut(key) {
                                m.remove(w);
                            }
                            for s in sticky.iter_mut() {
                                if s.get(key) == Some(w) {
                                    s.remove(key);
                                }
                            }
                        }
                        _ => {}
                    }
                }
                Op::DeleteWriter { id, .. } => {
                    last_release_all = rec.ret_t;
                    gone.push(*id);
                    for s in sticky.iter_mut() {
                        s.retain(|_, o| o != id);
                    }
                }
                Op::Crash { p: pp } => {
                    last_release_all = rec.ret_t;
                    for (w, _, wp) in &p.writers {
                        if wp == pp {
                            gone.push(*w);
                            for s in sticky.iter_mut() {
                                s.retain(|_, o| o != w);
                            }
                        }
                    }
                }
                _ => {}
            }
        }
        // both readers saw every sample: they must agree
        let mut a = presented[0].clone();
        let mut b = presented[1].clone();
        a.retain(|u| !boundary_uids.contains(u));
        b.retain(|u| !boundary_uids.contains(u));
        a.sort();
        b.sort();
        if a != b {
            let only_a: Vec<&u32> = a.iter().filter(|u| !b.contains(u)).collect();
            let only_b: Vec<&u32> = b.iter().filter(|u| !a.contains(u)).collect();
            v.violate("C24", "C24.readers-disagree", "C24.readers-disagree".into(), format!("the two readers received the same samples in the same order but reader 0 alone presented {:?} and reader 1 alone presented {:?}", only_a, only_b));
        }
    });
    v.probe("ownership_changes", ownership_changes);
    v.nontrivial = distinct_strengths && ownership_changes > 0;
    v
}

//! C16: matched-status counts track the actual matched set; departed endpoints get no more traffic.

use super::rxo::{partitions_match, rxo_incompatible, Ep};
use super::*;
use crate::hist::{with_hist, Hd, Res};
use crate::net::{with_net, FaultRule};
use crate::wire::{self, Sub};

pub fn defs() -> Vec<ScenarioDef> {
    vec![ScenarioDef {
        name: "matched-counts",
        prop: "C16",
        plan: plan_c16,
        check: check_c16,
        nontrivial_rule: "the matched set of the writer or reader under test changed at least twice (a match and a departure by deletion, QoS change, crash or participant deletion) with a status read after each change",
        quick_runs: 2000,
        thorough_runs: 100000,
        died_is_violation: true,
    }]
}

#[derive(Clone, Debug, Serialize, Deserialize, Default)]
struct P {
    w0: Ep,
    r0: Ep,
}

fn remote_reader_q(r: &mut Rng) -> (Q, Q) {
    let q = Q { reliable: Some(r.chance(0.7)), history: Some(0), deadline_ns: *r.pick(&[None, Some(2_000_000_000u64), Some(1_000_000_000), Some(500_000_000)]), ..Default::default() };
    let g = Q { partition: if r.chance(0.2) { Some(vec!["x".into()]) } else { None }, ..Default::default() };
    (q, g)
}
fn remote_writer_q(r: &mut Rng) -> (Q, Q) {
    let q = Q { reliable: Some(r.chance(0.7)), history: Some(0), mbt_ms: Some(100), deadline_ns: *r.pick(&[Some(1_000_000_000u64), Some(2_000_000_000), Some(3_000_000_000), None]), ..Default::default() };
    let g = Q { partition: if r.chance(0.2) { Some(vec!["x".into()]) } else { None }, ..Default::default() };
    (q, g)
}

fn plan_c16(seed: u64, tier: &str) -> Plan {
    let mut r = Rng::derive(seed, "matched-counts");
    let mut plan = base_plan("matched-counts", seed, tier, &mut r);
    plan.net.fragment_size = 1344;
    let w0 = Ep { id: 0, p: 0, topic: "A".into(), ty: "keyed".into(), q: Q { reliable: Some(true), history: Some(0), mbt_ms: Some(100), deadline_ns: Some(1_000_000_000), ..Default::default() }, gq: Q::default() };
    let r0 = Ep { id: 0, p: 0, topic: "B".into(), ty: "keyed".into(), q: Q { reliable: Some(false), history: Some(0), deadline_ns: Some(2_000_000_000), ..Default::default() }, gq: Q::default() };
    let n_remote = r.range(1, 2) as u32;
    let mut setup = vec![
        Op::CreateParticipant { p: 0, domain: 0, tag: String::new(), announce_ms: r.range(50, 500), q: Q::default(), l: None },
        Op::CreateTopic { p: 0, id: 0, name: "A".into(), ty: Ty::Keyed, q: Q::default(), l: None },
        Op::CreateTopic { p: 0, id: 1, name: "B".into(), ty: Ty::Keyed, q: Q::default(), l: None },
        Op::CreatePublisher { p: 0, id: 0, q: Q::default(), l: None },
        Op::CreateSubscriber { p: 0, id: 0, q: Q::default(), l: None },
        Op::CreateWriter { id: 0, publisher: 0, topic: 0, q: w0.q.clone(), l: None },
        Op::CreateReader { id: 0, subscriber: 0, topic: 1, q: r0.q.clone(), l: None },
    ];
    for p in 1..=n_remote {
        setup.push(Op::CreateParticipant { p, domain: 0, tag: String::new(), announce_ms: r.range(50, 500), q: Q::default(), l: None });
        setup.push(Op::CreateTopic { p, id: 10 * p, name: "A".into(), ty: Ty::Keyed, q: Q::default(), l: None });
        setup.push(Op::CreateTopic { p, id: 10 * p + 1, name: "B".into(), ty: Ty::Keyed, q: Q::default(), l: None });
    }
    setup.push(Op::Sleep { us: 1_500_000 });
    plan.phases.push(phase("setup", true, vec![script(setup)]));
    if r.chance(0.5) {
        plan.net.rules.push(FaultRule { from_ms: 0, to_ms: 10_000_000, src: None, dst: None, class: wire::C_SEDP, drop: r.f64() * 0.3, dup: r.f64() * 0.3, jitter_us: if r.chance(0.5) { r.range(0, 20_000) } else { 0 } });
    }
    let observe = |ops: &mut Vec<Op>| {
        ops.push(Op::Quiesce { quiet_ms: 1000, cap_ms: 20_000 });
        ops.push(Op::Mark { label: "observe".into() });
        ops.push(Op::Status { kind: "writer".into(), id: 0, what: "matched".into() });
        ops.push(Op::Matched { kind: "writer".into(), id: 0 });
        ops.push(Op::Status { kind: "reader".into(), id: 0, what: "matched".into() });
        ops.push(Op::Matched { kind: "reader".into(), id: 0 });
    };
    let mut ops = vec![];
    observe(&mut ops);
    let n_steps = if tier == "quick" { r.usize(2, 7) } else { r.usize(2, 14) };
    let mut next_id = 1u32;
    // remote endpoints alive: (is_writer, id, p, pubsub id)
    let mut alive: Vec<(bool, u32, u32, u32, Q)> = vec![];
    let mut dead_p: Vec<u32> = vec![];
    let mut departures = 0;
    for step in 0..n_steps {
        let live_ps: Vec<u32> = (1..=n_remote).filter(|p| !dead_p.contains(p)).collect();
        if live_ps.is_empty() {
            break;
        }
        let w_dep = if step + 1 == n_steps || r.chance(0.3) { 2 } else { 0 };
        let choice = if alive.is_empty() { 0 } else { r.weighted(&[5, 3, 3, w_dep]) };
        match choice {
            0 => {
                let p = *r.pick(&live_ps);
                let is_w = r.chance(0.5);
                let id = next_id;
                next_id += 1;
                if is_w {
                    let (q, g) = remote_writer_q(&mut r);
                    ops.push(Op::CreatePublisher { p, id: 100 + id, q: g, l: None });
                    ops.push(Op::CreateWriter { id, publisher: 100 + id, topic: 10 * p + 1, q: q.clone(), l: None });
                    alive.push((is_w, id, p, 100 + id, q));
                } else {
                    let (q, g) = remote_reader_q(&mut r);
                    ops.push(Op::CreateSubscriber { p, id: 100 + id, q: g, l: None });
                    ops.push(Op::CreateReader { id, subscriber: 100 + id, topic: 10 * p, q: q.clone(), l: None });
                    alive.push((is_w, id, p, 100 + id, q));
                }
            }
            1 => {
                let i = r.below(alive.len() as u64) as usize;
                let (is_w, id, _, _, _) = alive.remove(i);
                ops.push(if is_w { Op::DeleteWriter { id, via: None } } else { Op::DeleteReader { id, via: None } });
                departures += 1;
            }
            2 => {
                let i = r.below(alive.len() as u64) as usize;
                let (is_w, id, _, ps, q0) = alive[i].clone();
                if r.chance(0.6) {
                    let (q, _) = if is_w { remote_writer_q(&mut r) } else { remote_reader_q(&mut r) };
                    // only the deadline is changed (it is mutable); every other policy keeps its creation value
                    let nq = Q { deadline_ns: q.deadline_ns, ..q0 };
                    alive[i].4 = nq.clone();
                    ops.push(Op::SetQos { kind: if is_w { "writer" } else { "reader" }.into(), id, q: nq });
                } else {
                    let g = Q { partition: if r.chance(0.5) { Some(vec!["x".into()]) } else { Some(vec![]) }, ..Default::default() };
                    ops.push(Op::SetQos { kind: if is_w { "publisher" } else { "subscriber" }.into(), id: ps, q: g });
                }
            }
            _ => {
                let p = *r.pick(&live_ps);
                dead_p.push(p);
                if r.chance(0.5) {
                    ops.push(Op::Crash { p });
                    ops.push(Op::Sleep { us: 112_000_000 });
                } else {
                    ops.push(Op::DeleteContained { kind: "participant".into(), id: p });
                    ops.push(Op::DeleteParticipant { p });
                }
                alive.retain(|a| a.2 != p);
                departures += 1;
            }
        }
        observe(&mut ops);
    }
    let _ = departures;
    // a last look long after everything: wire silence is judged until here
    ops.push(Op::Sleep { us: 3_000_000 });
    ops.push(Op::Mark { label: "end".into() });
    plan.phases.push(phase("history", false, vec![script(ops)]));
    plan.max_sim_ms = 3_600_000;
    plan.max_steps = 6_000_000;
    plan.params = serde_json::to_value(P { w0, r0 }).unwrap();
    plan
}

#[derive(Clone)]
struct Remote {
    is_w: bool,
    id: u32,
    p: u32,
    pubsub: u32,
    q: Q,
    gq: Q,
    handle: Hd,
    alive: bool,
    matched: bool,
    left_at: Option<(u64, bool)>, // (time, by crash)
    qos_changed: bool,
}

fn check_c16(plan: &Plan, out: &Outcome) -> Verdict {
    let mut v = Verdict::default();
    let p: P = serde_json::from_value(plan.params.clone()).unwrap_or_default();
    if let Some(pn) = out.panics.first() {
        v.violate("C16", "C16.panic", format!("C16.panic {}", stream::panic_site(&pn.msg)), format!("dust-dds task panicked: {}", pn.msg));
        return v;
    }
    if out.completed_phases != plan.phases.len() {
        v.inconclusive = true;
        return v;
    }
    let st = out.world.st.borrow();
    let node0 = st.participants.get(&0).map(|x| x.1).unwrap_or(0);
    let mut changes = 0u64;
    let mut remotes: Vec<Remote> = vec![];
    with_hist(|h| {
        if h.recs.iter().any(|r| r.phase == 0 && r.res.err().is_some()) {
            v.inconclusive = true;
            return;
        }
        // model state for the two endpoints under test
        let mut w_total = 0;
        let mut r_total = 0;
        let mut w_last_read = (0, 0); // (total, current) at the last status read
        let mut r_last_read = (0, 0);
        let mut part_of: BTreeMap<u32, Q> = BTreeMap::new();
        let recs: Vec<&crate::hist::Rec> = h.recs.iter().filter(|r| r.phase == 1).collect();
        let mut inconclusive = false;
        let eval = |remotes: &mut Vec<Remote>, part_of: &BTreeMap<u32, Q>, w_total: &mut i32, r_total: &mut i32, changes: &mut u64, now: u64| {
            for rm in remotes.iter_mut() {
                let gq = part_of.get(&rm.pubsub).cloned().unwrap_or(rm.gq.clone());
                let ep = Ep { id: rm.id, p: rm.p, topic: String::new(), ty: String::new(), q: rm.q.clone(), gq };
                let compat = if rm.is_w { rxo_incompatible(&ep, &p.r0).is_empty() && partitions_match(&ep.gq.partition, &p.r0.gq.partition) == Some(true) } else { rxo_incompatible(&p.w0, &ep).is_empty() && partitions_match(&p.w0.gq.partition, &ep.gq.partition) == Some(true) };
                let m = rm.alive && compat;
                if m && !rm.matched {
                    if rm.is_w { *r_total += 1 } else { *w_total += 1 }
                    *changes += 1;
                    rm.left_at = None;
                } else if !m && rm.matched {
                    *changes += 1;
                    if rm.left_at.is_none() {
                        rm.left_at = Some((now, false));
                    }
                }
                rm.matched = m;
            }
        };
        for rec in recs {
            if matches!(rec.res, Res::Panic(_)) || rec.res.err().is_some() {
                // an API call of the history failed: other properties' business; stop judging
                if !matches!(rec.op, Op::Quiesce { .. }) {
                    inconclusive = true;
                    break;
                }
            }
            match &rec.op {
                Op::CreatePublisher { id, q, .. } | Op::CreateSubscriber { id, q, .. } => {
                    part_of.insert(*id, q.clone());
                }
                Op::CreateWriter { id, publisher, q, .. } => {
                    if let Res::Handle(hd) = rec.res {
                        let pp = st.writers.get(id).map(|x| x.p).unwrap_or(0);
                        remotes.push(Remote { is_w: true, id: *id, p: pp, pubsub: *publisher, q: q.clone(), gq: Q::default(), handle: hd, alive: true, matched: false, left_at: None, qos_changed: false });
                    }
                }
                Op::CreateReader { id, subscriber, q, .. } => {
                    if let Res::Handle(hd) = rec.res {
                        let pp = st.readers.get(id).map(|x| x.p).unwrap_or(0);
                        remotes.push(Remote { is_w: false, id: *id, p: pp, pubsub: *subscriber, q: q.clone(), gq: Q::default(), handle: hd, alive: true, matched: false, left_at: None, qos_changed: false });
                    }
                }
                Op::DeleteWriter { id, .. } => {
                    if let Some(rm) = remotes.iter_mut().find(|x| x.is_w && x.id == *id) {
                        rm.alive = false;
                    }
                }
                Op::DeleteReader { id, .. } => {
                    if let Some(rm) = remotes.iter_mut().find(|x| !x.is_w && x.id == *id) {
                        rm.alive = false;
                    }
                }
                Op::SetQos { kind, id, q } => match kind.as_str() {
                    "writer" | "reader" => {
                        if let Some(rm) = remotes.iter_mut().find(|x| x.is_w == (kind == "writer") && x.id == *id) {
                            rm.q.deadline_ns = q.deadline_ns;
                            rm.qos_changed = true;
                        }
                    }
                    _ => {
                        part_of.insert(*id, q.clone());
                        for rm in remotes.iter_mut().filter(|x| x.pubsub == *id) {
                            rm.qos_changed = true;
                        }
                    }
                },
                Op::Crash { p: pp } => {
                    for rm in remotes.iter_mut().filter(|x| x.p == *pp) {
                        rm.alive = false;
                        if rm.matched {
                            rm.left_at = Some((rec.ret_t, true));
                        }
                    }
                }
                Op::DeleteContained { kind, id } if kind == "participant" => {
                    for rm in remotes.iter_mut().filter(|x| x.p == *id) {
                        rm.alive = false;
                    }
                }
                Op::Mark { label } if label == "observe" => {
                    eval(&mut remotes, &part_of, &mut w_total, &mut r_total, &mut changes, rec.ret_t);
                }
                Op::Status { kind, .. } => {
                    let Res::Matched(Ok(s)) = &rec.res else { continue };
                    let is_w = kind == "writer";
                    let side = if is_w { "publication" } else { "subscription" };
                    let cur = remotes.iter().filter(|x| x.is_w != is_w && x.matched).count() as i32;
                    let total = if is_w { w_total } else { r_total };
                    let last = if is_w { &mut w_last_read } else { &mut r_last_read };
                    // the matched list read right after this status (same observation point)
                    let listed: Option<Vec<Hd>> = h.recs.iter().filter(|r| r.phase == 1 && r.inv_step > rec.inv_step).find_map(|r| match (&r.op, &r.res) {
                        (Op::Matched { kind: k, .. }, Res::Handles(Ok(l))) if k == kind => Some(l.clone()),
                        _ => None,
                    });
                    // endpoints on which implementation and model disagree, and why the model says so
                    let mut diff_qos = 0;
                    let mut diff_other = 0;
                    if let Some(l) = &listed {
                        for rm in remotes.iter().filter(|x| x.is_w != is_w) {
                            if l.contains(&rm.handle) != rm.matched {
                                if rm.qos_changed { diff_qos += 1 } else { diff_other += 1 }
                            }
                        }
                    }
                    let readded = remotes.iter().any(|x| x.is_w != is_w && x.matched && x.qos_changed);
                    let counts_ok = s.current == cur && s.total == total;
                    let changes_ok = s.total_change == total - last.0 && s.current_change == cur - last.1;
                    if (diff_qos > 0 && diff_other == 0) || (diff_qos == 0 && diff_other == 0 && readded && !(counts_ok && changes_ok)) {
                        if !(counts_ok && changes_ok) || diff_qos > 0 {
                            v.violate("C16", "C16.qos-change-not-applied", format!("C16.qos-change-not-applied {side}"), format!("after a QoS change of a remote endpoint (deadline, or partition of its publisher/subscriber) {side}_matched reports current_count {} total_count {} (changes {}/{}) at t={:.3}s; the model has current {} total {}: {} endpoint(s) whose QoS changed are matched on one side only", s.current, s.total, s.current_change, s.total_change, rec.ret_t as f64 / 1e9, cur, total, diff_qos));
                        }
                    } else {
                        if s.current != cur {
                            v.violate("C16", "C16.current-count", format!("C16.current-count {side} more={}", s.current > cur), format!("{side}_matched current_count is {} at t={:.3}s but {} remote endpoints are matched (exist, compatible, participant alive)", s.current, rec.ret_t as f64 / 1e9, cur));
                        }
                        if s.total != total {
                            v.violate("C16", "C16.total-count", format!("C16.total-count {side} more={}", s.total > total), format!("{side}_matched total_count is {} at t={:.3}s but {} matches have been made so far", s.total, rec.ret_t as f64 / 1e9, total));
                        }
                        if counts_ok {
                            if s.total_change != total - last.0 {
                                v.violate("C16", "C16.total-change", format!("C16.total-change {side}"), format!("{side}_matched total_count_change is {} but total_count went from {} to {} since the last read", s.total_change, last.0, total));
                            }
                            if s.current_change != cur - last.1 {
                                v.violate("C16", "C16.current-change", format!("C16.current-change {side}"), format!("{side}_matched current_count_change is {} but current_count went from {} to {} since the last read", s.current_change, last.1, cur));
                            }
                        }
                        if let Some(l) = &listed {
                            if diff_other > 0 {
                                let names = if is_w { "subscriptions" } else { "publications" };
                                v.violate("C16", "C16.matched-list", format!("C16.matched-list {names} more={}", l.len() as i32 > cur), format!("get_matched_{names} returned {} handles at t={:.3}s but {} remote endpoints are matched", l.len(), rec.ret_t as f64 / 1e9, cur));
                            }
                        }
                    }
                    // totals are cumulative: after a (reported) QoS-change discrepancy follow the implementation's
                    // count so that the same discrepancy is not reported again under another rule later
                    if v.violations.iter().any(|x| x.rule == "C16.qos-change-not-applied") && s.total != total {
                        if is_w { w_total = s.total } else { r_total = s.total }
                    }
                    *last = (s.total, s.current);
                }
                _ => {}
            }
        }
        if inconclusive {
            v.inconclusive = true;
        }
    });
    // wire silence towards departed readers of w0
    if !v.inconclusive {
        with_net(|net| {
            for rm in remotes.iter().filter(|x| !x.is_w) {
                let Some((t_left, crash)) = rm.left_at else { continue };
                if rm.matched {
                    continue;
                }
                let bound = if crash { 110_000_000_000u64 } else { 10_000_000_000 };
                let eid = u32::from_be_bytes([rm.handle[12], rm.handle[13], rm.handle[14], rm.handle[15]]);
                let prefix: [u8; 12] = rm.handle[..12].try_into().unwrap();
                for w in net.wire.iter().filter(|w| w.src == Some(node0) && w.t_send > t_left + bound) {
                    let to_prefix = w.parsed.subs.iter().any(|s| matches!(s, Sub::InfoDst(g) if *g == prefix));
                    let hit = w.parsed.subs.iter().find(|s| match s {
                        Sub::Data { reader, writer, .. } | Sub::Heartbeat { reader, writer, .. } | Sub::Gap { reader, writer, .. } | Sub::DataFrag { reader, writer, .. } => *reader == eid && !wire::is_builtin(*writer),
                        _ => false,
                    });
                    if let (true, Some(s)) = (to_prefix, hit) {
                        v.violate("C16", "C16.traffic-to-departed", format!("C16.traffic-to-departed crash={crash}"), format!("at t={:.3}s the writer still addressed {:?} to reader {} which left the matched set at t={:.3}s", w.t_send as f64 / 1e9, s, rm.id, t_left as f64 / 1e9));
                        break;
                    }
                }
            }
        });
    }
    v.probe("matched_set_changes", changes);
    v.nontrivial = changes >= 2;
    v
}

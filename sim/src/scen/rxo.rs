//! C15: endpoints match exactly when topic, type, partition and RxO QoS are compatible.

use super::*;
use crate::hist::{with_hist, Hd, Res};
use crate::net::FaultRule;
use crate::wire;

pub fn defs() -> Vec<ScenarioDef> {
    vec![ScenarioDef {
        name: "rxo-matrix",
        prop: "C15",
        plan: plan_c15,
        check: check_c15,
        nontrivial_rule: "the run contains at least one compatible and at least one incompatible writer/reader pair on a common topic (so both verdicts were exercised)",
        quick_runs: 2000,
        thorough_runs: 150000,
        died_is_violation: true,
    }]
}

#[derive(Clone, Debug, Serialize, Deserialize, Default)]
pub struct Ep {
    pub id: u32,
    pub p: u32,
    pub topic: String,
    pub ty: String,
    pub q: Q,
    /// publisher / subscriber level
    pub gq: Q,
}
#[derive(Clone, Debug, Serialize, Deserialize, Default)]
struct P {
    writers: Vec<Ep>,
    readers: Vec<Ep>,
    heal_ms: u64,
}

// ---- the DDS 1.4 RxO table (2.2.3, table "QoS policies") and partition matching, from the specification text

pub const DURABILITY: i32 = 2;
pub const PRESENTATION: i32 = 3;
pub const DEADLINE: i32 = 4;
pub const LATENCYBUDGET: i32 = 5;
pub const OWNERSHIP: i32 = 6;
pub const LIVELINESS: i32 = 8;
pub const RELIABILITY: i32 = 11;
pub const DESTINATIONORDER: i32 = 12;
pub const DATA_REPRESENTATION: i32 = 23;

fn dur_le(offered: Option<u64>, requested: Option<u64>) -> bool {
    // None = infinite
    match (offered, requested) {
        (_, None) => true,
        (None, Some(_)) => false,
        (Some(o), Some(r)) => o <= r,
    }
}

/// policy ids for which offered (writer) is incompatible with requested (reader)
pub fn rxo_incompatible(w: &Ep, r: &Ep) -> Vec<i32> {
    let mut v = vec![];
    if w.q.durability.unwrap_or(0) < r.q.durability.unwrap_or(0) {
        v.push(DURABILITY);
    }
    let wp = w.gq.presentation.unwrap_or((0, false, false));
    let rp = r.gq.presentation.unwrap_or((0, false, false));
    if wp.0 < rp.0 || (rp.1 && !wp.1) || (rp.2 && !wp.2) {
        v.push(PRESENTATION);
    }
    if !dur_le(w.q.deadline_ns, r.q.deadline_ns) {
        v.push(DEADLINE);
    }
    // latency budget default is 0 (not infinite)
    if w.q.latency_ns.unwrap_or(0) > r.q.latency_ns.unwrap_or(0) {
        v.push(LATENCYBUDGET);
    }
    if w.q.exclusive != r.q.exclusive {
        v.push(OWNERSHIP);
    }
    if w.q.liveliness.unwrap_or(0) < r.q.liveliness.unwrap_or(0) || !dur_le(w.q.lease_ns, r.q.lease_ns) {
        v.push(LIVELINESS);
    }
    // reliability defaults: writer RELIABLE, reader BEST_EFFORT
    if !w.q.reliable.unwrap_or(true) && r.q.reliable.unwrap_or(false) {
        v.push(RELIABILITY);
    }
    if !w.q.by_source && r.q.by_source {
        v.push(DESTINATIONORDER);
    }
    let offered = w.q.repr.as_ref().and_then(|l| l.first().copied()).unwrap_or(0);
    let accepted: Vec<u16> = r.q.repr.clone().filter(|l| !l.is_empty()).unwrap_or(vec![0]);
    if !accepted.contains(&offered) {
        v.push(DATA_REPRESENTATION);
    }
    v
}

fn has_wildcard(s: &str) -> bool {
    s.contains(['*', '?', '['])
}

/// POSIX fnmatch (no flags)
pub fn fnmatch(pat: &[u8], s: &[u8]) -> bool {
    if pat.is_empty() {
        return s.is_empty();
    }
    match pat[0] {
        b'*' => (0..=s.len()).any(|i| fnmatch(&pat[1..], &s[i..])),
        b'?' => !s.is_empty() && fnmatch(&pat[1..], &s[1..]),
        b'[' => {
            if s.is_empty() {
                return false;
            }
            let mut i = 1;
            let neg = i < pat.len() && (pat[i] == b'!' || pat[i] == b'^');
            if neg {
                i += 1;
            }
            let start = i;
            let mut matched = false;
            while i < pat.len() && (pat[i] != b']' || i == start) {
                if i + 2 < pat.len() && pat[i + 1] == b'-' && pat[i + 2] != b']' {
                    if pat[i] <= s[0] && s[0] <= pat[i + 2] {
                        matched = true;
                    }
                    i += 3;
                } else {
                    if pat[i] == s[0] {
                        matched = true;
                    }
                    i += 1;
                }
            }
            if i >= pat.len() {
                // no closing bracket: '[' is literal
                return s[0] == b'[' && fnmatch(&pat[1..], &s[1..]);
            }
            matched != neg && fnmatch(&pat[i + 1..], &s[1..])
        }
        c => !s.is_empty() && s[0] == c && fnmatch(&pat[1..], &s[1..]),
    }
}

/// DDS 2.2.3.13: partitions match if some name of one matches some name of the other; an empty list is
/// the default partition "" ; a name with wildcards is matched as a pattern against a literal name;
/// two patterns never match each other (the scenario never generates that case)
pub fn partitions_match(a: &Option<Vec<String>>, b: &Option<Vec<String>>) -> Option<bool> {
    let a: Vec<String> = a.clone().filter(|l| !l.is_empty()).unwrap_or(vec![String::new()]);
    let b: Vec<String> = b.clone().filter(|l| !l.is_empty()).unwrap_or(vec![String::new()]);
    let mut ambiguous = false;
    for x in &a {
        for y in &b {
            match (has_wildcard(x), has_wildcard(y)) {
                (false, false) => {
                    if x == y {
                        return Some(true);
                    }
                }
                (true, false) => {
                    if fnmatch(x.as_bytes(), y.as_bytes()) {
                        return Some(true);
                    }
                }
                (false, true) => {
                    if fnmatch(y.as_bytes(), x.as_bytes()) {
                        return Some(true);
                    }
                }
                (true, true) => ambiguous = true,
            }
        }
    }
    if ambiguous { None } else { Some(false) }
}

fn gen_dur(r: &mut Rng) -> Option<u64> {
    match r.below(6) {
        0 | 1 => None,
        2 => Some(1_000_000_000),
        3 => Some(1_000_000_001),
        4 => Some(1),
        _ => Some(999_999_999),
    }
}

/// Boundary-biased QoS. Most policies stay at their default so that a fair share of the pairs is
/// compatible; each policy is perturbed independently on either side.
fn gen_q(r: &mut Rng, writer: bool) -> (Q, Q) {
    let mut q = Q::default();
    let mut g = Q::default();
    q.history = Some(0);
    let pr = 0.18;
    if r.chance(pr) {
        q.durability = Some(r.below(2) as u8);
    }
    // reliability: make the common case compatible (writer reliable, reader either)
    q.reliable = Some(if writer { r.chance(0.85) } else { r.chance(0.5) });
    if r.chance(pr) {
        q.deadline_ns = gen_dur(r);
    }
    if r.chance(pr) {
        q.latency_ns = Some(*r.pick(&[0u64, 1, 1_000_000_000, 1_000_000_001]));
    }
    if r.chance(pr) {
        q.liveliness = Some(r.below(3) as u8);
    }
    if r.chance(pr) {
        q.lease_ns = gen_dur(r);
    }
    q.by_source = r.chance(0.12);
    q.exclusive = r.chance(0.08);
    if r.chance(pr) {
        q.repr = Some(if writer { r.pick(&[vec![0u16], vec![2u16], vec![]]).clone() } else { r.pick(&[vec![], vec![0u16], vec![2u16], vec![2u16, 0u16], vec![0u16, 2u16]]).clone() });
    }
    if r.chance(pr) {
        g.presentation = Some((r.below(2) as u8, r.chance(0.4), r.chance(0.4)));
    }
    if r.chance(0.3) {
        // literal names on the writer side, literals or patterns on the reader side (never pattern vs pattern)
        let lits = ["", "a", "b", "abc", "x1"];
        let pats = ["*", "a*", "?", "[a-c]", "[!x]*", "ab?", "x[0-9]"];
        let n = r.usize(0, 2);
        let mut names = vec![];
        for _ in 0..n {
            names.push(if writer || r.chance(0.5) { r.pick(&lits).to_string() } else { r.pick(&pats).to_string() });
        }
        g.partition = Some(names);
    }
    (q, g)
}

fn plan_c15(seed: u64, tier: &str) -> Plan {
    let mut r = Rng::derive(seed, "rxo-matrix");
    let mut plan = base_plan("rxo-matrix", seed, tier, &mut r);
    plan.net.fragment_size = 1344;
    let k = r.usize(1, if tier == "quick" { 3 } else { 5 }) as u32;
    let topics = ["A", "A", "A", "B"];
    let mut setup = vec![];
    for p in 0..2u32 {
        setup.push(Op::CreateParticipant { p, domain: 0, tag: String::new(), announce_ms: r.range(50, 1000), q: Q::default(), l: None });
    }
    // which side is created first is seeded
    let mut writers = vec![];
    let mut readers = vec![];
    let mut creation: Vec<(bool, Ep)> = vec![];
    let mut topic_ids: BTreeMap<(u32, String, String), u32> = BTreeMap::new();
    for i in 0..k {
        let topic = r.pick(&topics).to_string();
        let ty = if r.chance(0.85) { "keyed" } else { "other" }.to_string();
        let (q, gq) = gen_q(&mut r, true);
        let e = Ep { id: i, p: r.below(2) as u32, topic, ty, q, gq };
        writers.push(e.clone());
        creation.push((true, e));
    }
    for i in 0..k {
        let topic = r.pick(&topics).to_string();
        let ty = if r.chance(0.85) { "keyed" } else { "other" }.to_string();
        let (q, gq) = gen_q(&mut r, false);
        let e = Ep { id: i, p: r.below(2) as u32, topic, ty, q, gq };
        readers.push(e.clone());
        creation.push((false, e));
    }
    r.shuffle(&mut creation);
    let mut next_topic = 0u32;
    let mut ops = vec![];
    for (is_w, e) in &creation {
        // a participant can have only one type per topic name: reuse the first one created there
        let key = (e.p, e.topic.clone(), e.ty.clone());
        let existing = topic_ids.iter().find(|(k2, _)| k2.0 == e.p && k2.1 == e.topic).map(|(k2, v)| (k2.2.clone(), *v));
        let (ty, tid) = match existing {
            Some((ty, tid)) => (ty, tid),
            None => {
                let tid = next_topic;
                next_topic += 1;
                topic_ids.insert(key, tid);
                ops.push(Op::CreateTopic { p: e.p, id: tid, name: e.topic.clone(), ty: if e.ty == "keyed" { Ty::Keyed } else { Ty::Other }, q: Q::default(), l: None });
                (e.ty.clone(), tid)
            }
        };
        let _ = ty;
        if *is_w {
            ops.push(Op::CreatePublisher { p: e.p, id: 100 + e.id, q: e.gq.clone(), l: None });
            ops.push(Op::CreateWriter { id: e.id, publisher: 100 + e.id, topic: tid, q: e.q.clone(), l: Some(L { mask: vec![3], nil: false }) });
        } else {
            ops.push(Op::CreateSubscriber { p: e.p, id: 200 + e.id, q: e.gq.clone(), l: None });
            ops.push(Op::CreateReader { id: e.id, subscriber: 200 + e.id, topic: tid, q: e.q.clone(), l: Some(L { mask: vec![4], nil: false }) });
        }
        if r.chance(0.3) {
            ops.push(Op::Sleep { us: r.range(0, 300_000) });
        }
    }
    // record the type actually used per endpoint (first topic of that name in the participant wins)
    for e in writers.iter_mut().chain(readers.iter_mut()) {
        if let Some((k2, _)) = topic_ids.iter().find(|(k2, _)| k2.0 == e.p && k2.1 == e.topic) {
            e.ty = k2.2.clone();
        }
    }
    plan.phases.push(phase("setup", true, vec![script(setup)]));
    plan.phases.push(phase("create", false, vec![script(ops)]));
    let heal_ms = r.range(200, 3000);
    if r.chance(0.6) {
        plan.net.rules.push(FaultRule { from_ms: 0, to_ms: heal_ms, src: None, dst: None, class: wire::C_SEDP, drop: r.f64() * 0.5, dup: r.f64() * 0.3, jitter_us: if r.chance(0.5) { r.range(0, 30_000) } else { 0 } });
    }
    plan.net.heal_ms = Some(heal_ms);
    let mut fin = vec![Op::SleepUntil { ms: heal_ms }, Op::Quiesce { quiet_ms: 1000, cap_ms: 20_000 }, Op::Sleep { us: 300_000 }];
    for w in &writers {
        fin.push(Op::Matched { kind: "writer".into(), id: w.id });
    }
    for rd in &readers {
        fin.push(Op::Matched { kind: "reader".into(), id: rd.id });
    }
    plan.phases.push(phase("observe", true, vec![script(fin)]));
    plan.max_sim_ms = 120_000;
    plan.max_steps = 2_000_000;
    plan.params = serde_json::to_value(P { writers, readers, heal_ms }).unwrap();
    plan
}

fn check_c15(plan: &Plan, out: &Outcome) -> Verdict {
    let mut v = Verdict::default();
    let p: P = serde_json::from_value(plan.params.clone()).unwrap_or_default();
    if let Some(pn) = out.panics.first() {
        v.violate("C15", "C15.panic", format!("C15.panic {}", stream::panic_site(&pn.msg)), format!("dust-dds task panicked: {}", pn.msg));
        return v;
    }
    if out.completed_phases != plan.phases.len() {
        v.inconclusive = true;
        return v;
    }
    let st = out.world.st.borrow();
    let mut n_compat = 0;
    let mut n_incompat = 0;
    with_hist(|h| {
        let create_failed = h.recs.iter().any(|r| r.phase <= 1 && (r.res.err().is_some() || matches!(r.res, Res::Skipped(_) | Res::Panic(_))));
        if create_failed {
            v.probe("create_failed", 1);
            v.inconclusive = true;
            return;
        }
        let matched_of = |kind: &str, id: u32| -> Option<Vec<Hd>> {
            h.recs.iter().rev().find_map(|r| match (&r.op, &r.res) {
                (Op::Matched { kind: k, id: i }, Res::Handles(Ok(l))) if k == kind && *i == id => Some(l.clone()),
                _ => None,
            })
        };
        for w in &p.writers {
            let Some(wh) = st.writers.get(&w.id).map(|x| x.handle) else { continue };
            let Some(wm) = matched_of("writer", w.id) else { continue };
            let wcb: Vec<&crate::hist::Callback> = h.callbacks.iter().filter(|c| c.what == "on_offered_incompatible_qos" && c.entity == wh).collect();
            let mut offending_any: Vec<i32> = vec![];
            for rd in &p.readers {
                let Some(rh) = st.readers.get(&rd.id).map(|x| x.handle) else { continue };
                let Some(rm) = matched_of("reader", rd.id) else { continue };
                let rcb: Vec<&crate::hist::Callback> = h.callbacks.iter().filter(|c| c.what == "on_requested_incompatible_qos" && c.entity == rh).collect();
                let same_topic = w.topic == rd.topic && w.ty == rd.ty;
                let part = partitions_match(&w.gq.partition, &rd.gq.partition);
                let bad = rxo_incompatible(w, rd);
                let w_has = wm.contains(&rh);
                let r_has = rm.contains(&wh);
                let Some(part) = part else { continue };
                let expect = same_topic && part && bad.is_empty();
                if same_topic {
                    if expect {
                        n_compat += 1;
                    } else {
                        n_incompat += 1;
                    }
                }
                let why = format!("writer {} [{} / {} qos {} pub {}] vs reader {} [{} / {} qos {} sub {}]", w.id, w.topic, w.ty, serde_json::to_string(&w.q).unwrap(), serde_json::to_string(&w.gq).unwrap(), rd.id, rd.topic, rd.ty, serde_json::to_string(&rd.q).unwrap(), serde_json::to_string(&rd.gq).unwrap());
                let cause = if !same_topic { "topic".to_string() } else if !part { "partition".to_string() } else { format!("{:?}", bad) };
                if w_has != r_has {
                    v.violate("C15", "C15.sides-disagree", format!("C15.sides-disagree expect={expect} cause={cause}"), format!("writer side says matched={w_has}, reader side says matched={r_has} (model: {expect}): {why}"));
                } else if w_has && !expect {
                    v.violate("C15", "C15.matched-incompatible", format!("C15.matched-incompatible cause={cause}"), format!("matched although incompatible ({cause}): {why}"));
                } else if !w_has && expect {
                    v.violate("C15", "C15.unmatched-compatible", "C15.unmatched-compatible".into(), format!("not matched although topic, type, partition and all RxO policies are compatible: {why}"));
                }
                // incompatibility must be reported on both sides, naming an offending policy
                if same_topic && part && !bad.is_empty() {
                    offending_any.extend(bad.iter());
                    let wpol: Vec<i32> = wcb.last().map(|c| c.policies.iter().filter(|x| x.1 > 0).map(|x| x.0).collect()).unwrap_or_default();
                    let rpol: Vec<i32> = rcb.last().map(|c| c.policies.iter().filter(|x| x.1 > 0).map(|x| x.0).collect()).unwrap_or_default();
                    if !bad.iter().any(|b| wpol.contains(b)) {
                        v.violate("C15", "C15.offered-incompatible-not-reported", format!("C15.offered-incompatible-not-reported policies={:?}", bad), format!("offered_incompatible_qos of the writer names {:?} but the pair is incompatible in {:?}: {why}", wpol, bad));
                    }
                    if !bad.iter().any(|b| rpol.contains(b)) {
                        v.violate("C15", "C15.requested-incompatible-not-reported", format!("C15.requested-incompatible-not-reported policies={:?}", bad), format!("requested_incompatible_qos of the reader names {:?} but the pair is incompatible in {:?}: {why}", rpol, bad));
                    }
                }
            }
            // no spurious policy: every policy named by the writer is offending for some reader on its topic
            if let Some(c) = wcb.last() {
                let all_bad: Vec<i32> = p.readers.iter().filter(|rd| rd.topic == w.topic && rd.ty == w.ty).flat_map(|rd| rxo_incompatible(w, rd)).collect();
                for (pol, n) in &c.policies {
                    if *n > 0 && !all_bad.contains(pol) {
                        v.violate("C15", "C15.spurious-incompatible-policy", format!("C15.spurious-incompatible-policy {pol}"), format!("offered_incompatible_qos of writer {} names policy {pol} which is compatible with every reader of its topic (qos {} pub {})", w.id, serde_json::to_string(&w.q).unwrap(), serde_json::to_string(&w.gq).unwrap()));
                    }
                }
            }
        }
    });
    v.probe("compatible_pairs", n_compat);
    v.probe("incompatible_pairs", n_incompat);
    v.nontrivial = n_compat > 0 && n_incompat > 0;
    v
}

#[cfg(test)]
mod tests {
    use super::*;
    #[test]
    fn fnmatch_basics() {
        assert!(fnmatch(b"*", b""));
        assert!(fnmatch(b"a*", b"abc"));
        assert!(!fnmatch(b"a*", b"bc"));
        assert!(fnmatch(b"?", b"x"));
        assert!(!fnmatch(b"?", b""));
        assert!(fnmatch(b"[a-c]", b"b"));
        assert!(!fnmatch(b"[a-c]", b"d"));
        assert!(fnmatch(b"[!x]*", b"abc"));
        assert!(!fnmatch(b"[!x]*", b"xbc"));
        assert!(fnmatch(b"x[0-9]", b"x1"));
    }
    #[test]
    fn rxo_table() {
        let w = Ep { q: Q { liveliness: Some(2), lease_ns: Some(10), ..Default::default() }, ..Default::default() };
        let r = Ep { q: Q { liveliness: Some(1), lease_ns: Some(5), ..Default::default() }, ..Default::default() };
        // kind offered >= requested but lease offered > requested: incompatible (each judged separately)
        assert_eq!(rxo_incompatible(&w, &r), vec![LIVELINESS]);
        let r2 = Ep { q: Q { liveliness: Some(1), lease_ns: Some(10), ..Default::default() }, ..Default::default() };
        assert!(rxo_incompatible(&w, &r2).is_empty());
        assert_eq!(partitions_match(&None, &Some(vec!["".into()])), Some(true));
        assert_eq!(partitions_match(&Some(vec!["a".into()]), &Some(vec!["b".into(), "a*".into()])), Some(true));
    }
}

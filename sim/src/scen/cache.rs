//! Reader-cache scenarios: C18 (KEEP_LAST), C19 (resource limits), C20 (read/take), C21 (source order),
//! C22 (life cycle), C23 (next_instance), C25 (time-based filter). One sequenced driver client:
//! every writer change is acknowledged by the reader under test before the next operation, so the
//! reception order equals the publication order whatever the network does and the model is exact.

use super::*;
use crate::hist::{with_hist, Rec, Res, SampleRec, E};
use crate::model::{self, Cfg, Kind, Model, Rx};
use crate::net::FaultRule;
use crate::types::handle_of_key;
use crate::wire;

pub fn defs() -> Vec<ScenarioDef> {
    let mk = |name: &'static str, prop: &'static str, plan: fn(u64, &str) -> Plan, check: fn(&Plan, &Outcome) -> Verdict, rule: &'static str| ScenarioDef { name, prop, plan, check, nontrivial_rule: rule, quick_runs: 2500, thorough_runs: 300000, died_is_violation: false };
    vec![
        mk("cache-keeplast", "C18", |s, t| genp("C18", s, t), |p, o| check(p, o, "C18"), "the reader received more samples of one instance than its KEEP_LAST depth (a replacement happened) or, for KEEP_ALL, at least 3 samples, and the history was read back at least once"),
        mk("cache-limits", "C19", |s, t| genp("C19", s, t), |p, o| check(p, o, "C19"), "at least one reception (or write) hit a resource limit according to the model"),
        mk("cache-readtake", "C20", |s, t| genp("C20", s, t), |p, o| check(p, o, "C20"), "at least 3 read/take calls returned data, at least one with a restricting mask or a max_samples smaller than the number of matching samples"),
        mk("cache-sourceorder", "C21", |s, t| genp("C21", s, t), |p, o| check(p, o, "C21"), "at least two samples of one instance were received with non-monotonic or equal source timestamps and read back"),
        mk("cache-lifecycle", "C22", |s, t| genp("C22", s, t), |p, o| check(p, o, "C22"), "at least one instance went NOT_ALIVE (dispose or unregister) and at least one read followed it"),
        mk("cache-nextinstance", "C23", |s, t| genp("C23", s, t), |p, o| check(p, o, "C23"), "a next_instance walk visited or skipped at least two instances, at least one of them without matching samples"),
        mk("cache-timefilter", "C25", |s, t| genp("C25", s, t), |p, o| check(p, o, "C25"), "at least one sample was closer than minimum_separation to the previously presented one of its instance according to the model"),
    ]
}

#[derive(Clone, Debug, Serialize, Deserialize, Default)]
struct P {
    prop: String,
    reader_q: Q,
    /// writer id -> autodispose
    writers: Vec<(u32, bool)>,
    has_state_changes: bool,
    writer_limits: bool,
}

fn masks(r: &mut Rng, allow_vs: bool) -> Masks {
    let mut m = Masks::default();
    if r.chance(0.45) {
        m.ss = r.range(1, 3) as u8;
    }
    if allow_vs && r.chance(0.3) {
        m.vs = r.range(1, 3) as u8;
    }
    if r.chance(0.3) {
        m.is = r.range(1, 7) as u8;
    }
    m
}

fn genp(prop: &str, seed: u64, tier: &str) -> Plan {
    let mut r = Rng::derive(seed, &format!("cache-{prop}"));
    let name = defs().into_iter().find(|d| d.prop == prop).unwrap().name;
    let mut plan = base_plan(name, seed, tier, &mut r);
    // payloads stay below the fragment size (attribution: fragment repair is C01/C05's subject)
    plan.net.fragment_size = *r.pick(&[1344usize, 1344, 4096, 65000]);
    let n_keys = r.range(1, 4) as u8;
    let n_writers: u32 = match prop {
        "C22" | "C21" => r.range(1, 3) as u32,
        "C20" => r.range(1, 2) as u32,
        _ => 1,
    };
    let mut rq = Q { reliable: Some(true), history: Some(0), ..Default::default() };
    let mut writer_limits = false;
    let mut wq_extra = Q::default();
    match prop {
        "C18" => {
            if r.chance(0.85) {
                let d = r.range(1, 4) as u32;
                rq.history = Some(d);
                match r.below(3) {
                    0 => rq.max_spi = Some(d as i32),
                    1 => rq.max_spi = Some(d as i32 + 1),
                    _ => {}
                }
                if rq.max_spi.is_some() && r.chance(0.4) {
                    rq.max_samples = Some(rq.max_spi.unwrap() * n_keys as i32 + r.range(0, 2) as i32);
                }
            }
        }
        "C19" => {
            if r.chance(0.25) {
                writer_limits = true;
                wq_extra.durability = Some(1);
                match r.below(3) {
                    0 => {
                        wq_extra.max_samples = Some(r.range(1, 5) as i32);
                        wq_extra.max_spi = wq_extra.max_samples;
                    }
                    1 => wq_extra.max_instances = Some(r.range(1, 3) as i32),
                    _ => wq_extra.max_spi = Some(r.range(1, 3) as i32),
                }
                rq.durability = Some(1);
            } else {
                let spi = if r.chance(0.6) { Some(r.range(1, 4) as i32) } else { None };
                let inst = if r.chance(0.4) { Some(r.range(1, 3) as i32) } else { None };
                let ms = if r.chance(0.5) { Some(spi.unwrap_or(2) * r.range(1, 3) as i32) } else { None };
                // consistency: max_samples >= max_samples_per_instance (unlimited counts as larger)
                let spi = if ms.is_some() && spi.is_none() { ms } else { spi };
                rq.max_spi = spi;
                rq.max_instances = inst;
                rq.max_samples = ms;
                if r.chance(0.3) {
                    // KEEP_LAST below the limits
                    let d = r.range(1, spi.unwrap_or(3) as u64) as u32;
                    rq.history = Some(d);
                }
            }
        }
        "C21" => rq.by_source = true,
        "C25" => rq.tbf_ns = Some(*r.pick(&[1u64, 1_000_000, 1_000_000_000])),
        _ => {}
    }
    let state_changes = matches!(prop, "C22") || (prop == "C20" && r.chance(0.5)) || (prop == "C23" && r.chance(0.3)) || (prop == "C19" && !writer_limits && r.chance(0.4)) || (prop == "C18" && r.chance(0.4));
    let mut setup = vec![
        Op::CreateParticipant { p: 0, domain: 0, tag: String::new(), announce_ms: r.range(50, 1000), q: Q::default(), l: None },
        Op::CreateTopic { p: 0, id: 0, name: "T".into(), ty: Ty::Keyed, q: Q::default(), l: None },
        Op::CreatePublisher { p: 0, id: 0, q: Q::default(), l: None },
        Op::CreateParticipant { p: 1, domain: 0, tag: String::new(), announce_ms: r.range(50, 1000), q: Q::default(), l: None },
        Op::CreateTopic { p: 1, id: 0, name: "T".into(), ty: Ty::Keyed, q: Q::default(), l: None },
        Op::CreateSubscriber { p: 1, id: 1, q: Q::default(), l: None },
        Op::CreateReader { id: 0, subscriber: 1, topic: 0, q: rq.clone(), l: if matches!(prop, "C18" | "C19") { Some(L { mask: vec![6], nil: false }) } else { None } },
    ];
    let mut writers = vec![];
    for w in 0..n_writers {
        // (C20 too: without autodispose an unregister ends in NOT_ALIVE_NO_WRITERS, so the no_writers generation count
        // takes part in the generation ranks)
        let autodispose = if prop == "C22" || (prop == "C20" && state_changes) { r.chance(0.5) } else { true };
        let mut q = Q { reliable: Some(true), history: Some(0), mbt_ms: Some(-1), autodispose: Some(autodispose), by_source: rq.by_source, ..wq_extra.clone() };
        if writer_limits {
            q.history = Some(0);
        }
        setup.push(Op::CreateWriter { id: w, publisher: 0, topic: 0, q, l: None });
        writers.push((w, autodispose));
    }
    for (w, _) in &writers {
        setup.push(Op::WaitMatched { kind: "writer".into(), id: *w, n: 1, timeout_ms: 20_000 });
    }
    setup.push(Op::Sleep { us: 200_000 });
    plan.phases.push(phase("setup", true, vec![script(setup)]));
    if r.chance(0.6) {
        plan.net.rules.push(FaultRule { from_ms: 0, to_ms: 10_000_000, src: None, dst: None, class: wire::C_USER, drop: r.f64() * 0.3, dup: r.f64() * 0.2, jitter_us: if r.chance(0.5) { r.range(0, 20_000) } else { 0 } });
    }

    let n_ops = if tier == "quick" { r.usize(6, 30) } else { r.usize(6, 60) };
    let mut ops = vec![];
    let mut uid = 1u32;
    // which keys each writer has registered (written and not unregistered)
    let mut registered: Vec<BTreeMap<u8, bool>> = vec![BTreeMap::new(); n_writers as usize];
    let mut clock_off: i64 = 0; // for explicit timestamps: a logical source clock in ns relative to "now"
    let sep = rq.tbf_ns.unwrap_or(0) as i64;
    for _ in 0..n_ops {
        let w = r.below(n_writers as u64) as u32;
        let key = r.below(n_keys as u64) as u8;
        let choice = match prop {
            "C23" => r.weighted(&[5, 0, 0, 3, 2]),
            _ if state_changes => r.weighted(&[6, 2, 2, 5, 0]),
            _ => r.weighted(&[6, 0, 0, 5, 0]),
        };
        match choice {
            0 => {
                let ts = match prop {
                    "C21" => {
                        // a source clock that jumps back and forth and repeats values (skewed / unsynchronised writers)
                        let step: i64 = match r.below(5) {
                            0 => 0,
                            1 => -(r.range(1, 5_000_000) as i64),
                            2 => r.range(1, 5_000_000) as i64,
                            3 => -(r.range(20_000_000, 200_000_000) as i64),
                            _ => r.range(20_000_000, 200_000_000) as i64,
                        };
                        clock_off += step;
                        Some(clock_off - 3_000_000_000)
                    }
                    "C25" => {
                        // logical source clock: steps below, at and above the separation
                        let step = match r.below(7) {
                            0 => 0,
                            1 => sep - 1,
                            2 => sep,
                            3 => sep + 1,
                            4 => sep / 2,
                            5 => sep / 3,
                            _ => 2 * sep + r.range(0, 1000) as i64,
                        };
                        clock_off += step.max(0);
                        Some(clock_off - 3_000_000_000)
                    }
                    _ => None,
                };
                ops.push(Op::W { w, k: WKind::Write, key, len: r.range(0, 24), x: uid as i32, name: String::new(), ts, h: H::None, uid });
                ops.push(Op::WaitAcks { w, timeout_ms: 20_000, freeze_check: false });
                registered[w as usize].insert(key, true);
                uid += 1;
            }
            1 | 2 => {
                // dispose / unregister an instance this writer has registered
                let regs: Vec<u8> = registered[w as usize].keys().copied().collect();
                if regs.is_empty() {
                    continue;
                }
                let key = *r.pick(&regs);
                let k = if choice == 1 { WKind::Dispose } else { WKind::Unregister };
                if choice == 2 {
                    registered[w as usize].remove(&key);
                }
                ops.push(Op::W { w, k, key, len: 0, x: 0, name: String::new(), ts: None, h: H::None, uid });
                ops.push(Op::WaitAcks { w, timeout_ms: 20_000, freeze_check: false });
                uid += 1;
            }
            3 => {
                let allow_vs = !(prop == "C20" && state_changes);
                let m = if matches!(prop, "C20" | "C23") { masks(&mut r, allow_vs) } else { Masks::default() };
                let bounded = prop == "C20" && !state_changes && r.chance(0.5);
                let max = if bounded { *r.pick(&[1, 2, 3]) } else { i32::MAX };
                let k = match prop {
                    "C20" => match r.below(6) {
                        0 | 1 => ReadKind::Read,
                        2 | 3 => ReadKind::Take,
                        4 => ReadKind::ReadInstance,
                        _ => ReadKind::TakeInstance,
                    },
                    "C18" | "C19" | "C22" | "C21" | "C25" => {
                        if r.chance(0.7) {
                            ReadKind::Read
                        } else {
                            ReadKind::Take
                        }
                    }
                    _ => {
                        if r.chance(0.5) {
                            ReadKind::Read
                        } else {
                            ReadKind::Take
                        }
                    }
                };
                ops.push(Op::R { r: 0, k, max, m, h: H::OfKey, key });
            }
            _ => {
                // a next-instance walk
                let m = masks(&mut r, true);
                let take = r.chance(0.4);
                let k = if take { ReadKind::TakeNextInstance } else { ReadKind::ReadNextInstance };
                ops.push(Op::R { r: 0, k: k.clone(), max: i32::MAX, m: m.clone(), h: H::Nil, key: 0 });
                for _ in 0..n_keys + 1 {
                    ops.push(Op::R { r: 0, k: k.clone(), max: i32::MAX, m: m.clone(), h: H::Prev, key: 0 });
                }
            }
        }
    }
    // final read back
    ops.push(Op::R { r: 0, k: ReadKind::Read, max: i32::MAX, m: Masks::default(), h: H::None, key: 0 });
    ops.push(Op::Sleep { us: 200_000 });
    if writer_limits {
        // a late TRANSIENT_LOCAL reader shows what the writer really stored
        ops.push(Op::CreateReader { id: 1, subscriber: 1, topic: 0, q: Q { reliable: Some(true), durability: Some(1), history: Some(0), ..Default::default() }, l: None });
        ops.push(Op::WaitHistorical { r: 1, timeout_ms: 20_000, freeze_check: false });
        ops.push(Op::Sleep { us: 1_000_000 });
        ops.push(Op::R { r: 1, k: ReadKind::Read, max: i32::MAX, m: Masks::default(), h: H::None, key: 0 });
    }
    plan.phases.push(phase("workload", false, vec![script(ops)]));
    if prop == "C18" && r.chance(0.4) {
        // the writers' participant goes away (gracefully, or silently until its lease expires): what the reader
        // has received and not taken stays readable
        let mut dep = if r.chance(0.5) {
            vec![Op::DeleteContained { kind: "participant".into(), id: 0 }, Op::DeleteParticipant { p: 0 }, Op::Sleep { us: 2_000_000 }]
        } else {
            vec![Op::Crash { p: 0 }, Op::Sleep { us: 102_000_000 }]
        };
        dep.push(Op::Discovered { p: 1 });
        dep.push(Op::R { r: 0, k: ReadKind::Read, max: i32::MAX, m: Masks::default(), h: H::None, key: 0 });
        plan.phases.push(phase("departure", true, vec![script(dep)]));
    }
    if prop == "C19" {
        // the status must also be readable through the API
        plan.phases.push(phase("status-api", true, vec![script(vec![Op::Status { kind: "reader".into(), id: 0, what: "rejected".into() }])]));
    }
    plan.max_sim_ms = 3_600_000;
    plan.max_steps = 600_000;
    plan.params = serde_json::to_value(P { prop: prop.into(), reader_q: rq, writers, has_state_changes: state_changes, writer_limits }).unwrap();
    plan
}

fn mask_str(m: &Masks) -> String {
    format!("ss={} vs={} is={}", m.ss, m.vs, m.is)
}

fn check(plan: &Plan, out: &Outcome, prop: &str) -> Verdict {
    let mut v = Verdict::default();
    let p: P = serde_json::from_value(plan.params.clone()).unwrap_or_default();
    if !out.panics.is_empty() {
        v.inconclusive = true;
        return v;
    }
    let setup_failed = with_hist(|h| h.recs.iter().any(|r| r.phase == 0 && (r.res.err().is_some() || matches!(r.res, Res::Skipped(_) | Res::Pending | Res::Panic(_)))));
    if setup_failed {
        v.probe("setup_failed", 1);
        v.inconclusive = true;
        return v;
    }
    let recs: Vec<Rec> = with_hist(|h| h.recs.iter().filter(|r| r.phase == 1).cloned().collect());
    let w_ts = with_hist(|h| h.w_ts.clone());
    let whandle: BTreeMap<u32, [u8; 16]> = out.world.st.borrow().writers.iter().map(|(i, w)| (*i, w.handle)).collect();
    let q = &p.reader_q;
    let cfg = Cfg { depth: q.history.unwrap_or(0), max_samples: q.max_samples, max_instances: q.max_instances, max_spi: q.max_spi, by_source: q.by_source, tbf_ns: q.tbf_ns.unwrap_or(0) };
    let mut m = Model::new(cfg.clone());
    let mut registered: BTreeMap<u32, BTreeMap<u8, ()>> = BTreeMap::new();
    let mut prev: Option<[u8; 16]> = None;
    let mut rejects: Vec<(Vec<u8>, u8)> = vec![];
    let mut replay_complete = true;
    let mut reads_with_data = 0;
    let mut restricting = 0;
    let mut replaced = false;
    let mut limit_hit = false;
    let mut went_not_alive = false;
    let mut read_after_not_alive = false;
    let mut nonmono = false;
    let mut tbf_filtered = false;
    let mut walk_skipped = false;
    let mut writer_ok: Vec<u32> = vec![];
    let mut writer_refused = 0;
    let mut i = 0;
    macro_rules! viol {
        ($rule:expr, $sig:expr, $($arg:tt)*) => {{
            let rule: &str = $rule;
            if rule.starts_with(prop) { v.violate(prop, rule, $sig, format!($($arg)*)); }
        }};
    }
    'replay: while i < recs.len() {
        let rec = &recs[i];
        i += 1;
        match &rec.op {
            Op::W { w, k, key, uid, .. } => {
                // writer-side result
                if p.writer_limits && *k == WKind::Write {
                    // model of the writer's limits (KEEP_ALL, TRANSIENT_LOCAL: everything written is retained)
                    let wq = plan.phases[0].clients[0].ops.iter().find_map(|o| if let Op::CreateWriter { id, q, .. } = o { if id == w { Some(q.clone()) } else { None } } else { None }).unwrap_or_default();
                    let stored: Vec<u8> = writer_ok.iter().map(|u| recs.iter().find_map(|r| if let Op::W { uid: u2, key, .. } = &r.op { if u2 == u { Some(*key) } else { None } } else { None }).unwrap_or(0)).collect();
                    let n_inst: std::collections::BTreeSet<u8> = stored.iter().copied().collect();
                    let over = wq.max_samples.is_some_and(|x| stored.len() as i32 >= x) || wq.max_spi.is_some_and(|x| stored.iter().filter(|k2| *k2 == key).count() as i32 >= x) || (!n_inst.contains(key) && wq.max_instances.is_some_and(|x| n_inst.len() as i32 >= x));
                    match (&rec.res, over) {
                        (Res::Unit(Err(E::OutOfResources)), true) => {
                            limit_hit = true;
                            writer_refused += 1;
                            // skip the wait
                            continue;
                        }
                        (Res::Unit(Ok(())), true) => {
                            limit_hit = true;
                            viol!("C19.writer-accepted-over-limit", "C19.writer-accepted-over-limit".into(), "write of seq {uid} was accepted although the writer already holds {} samples (limits: max_samples {:?} max_instances {:?} max_samples_per_instance {:?})", stored.len(), wq.max_samples, wq.max_instances, wq.max_spi);
                            writer_ok.push(*uid);
                        }
                        (Res::Unit(Err(E::OutOfResources)), false) => {
                            viol!("C19.writer-refused-below-limit", "C19.writer-refused-below-limit".into(), "write of seq {uid} was refused with OutOfResources although the writer holds only {} samples (limits: max_samples {:?} max_instances {:?} max_samples_per_instance {:?})", stored.len(), wq.max_samples, wq.max_instances, wq.max_spi);
                            continue;
                        }
                        (Res::Unit(Ok(())), false) => writer_ok.push(*uid),
                        _ => {
                            v.inconclusive = true;
                            { replay_complete = false; break 'replay; }
                        }
                    }
                } else if !matches!(rec.res, Res::Unit(Ok(()))) {
                    // unexpected writer-side result: other properties' business (C28); stop judging
                    v.inconclusive = true;
                    { replay_complete = false; break 'replay; }
                }
                // the acknowledgment that sequences the reception
                let acked = recs.get(i).is_some_and(|n| matches!(&n.op, Op::WaitAcks { w: w2, .. } if w2 == w) && matches!(&n.res, Res::AckCheck { res: Ok(()), .. }));
                if !acked {
                    v.inconclusive = true;
                    { replay_complete = false; break 'replay; }
                }
                i += 1;
                let ts = w_ts.get(uid).copied().unwrap_or(rec.inv_t as i64);
                let reg = registered.entry(*w).or_default();
                let kind = match k {
                    WKind::Write => {
                        reg.insert(*key, ());
                        Kind::Alive
                    }
                    WKind::Dispose => Kind::Dispose,
                    WKind::Unregister => {
                        reg.remove(key);
                        if p.writers.iter().any(|x| x.0 == *w && x.1) { Kind::DisposeUnregister } else { Kind::Unregister }
                    }
                    _ => continue,
                };
                if matches!(prop, "C19" | "C18") && kind != Kind::Alive {
                    // Whether a dispose / unregister notification occupies a sample slot (of the limits, of the
                    // KEEP_LAST depth) is not specified: from here on only the order-insensitive invariants are judged
                    m.ambiguous = Some("resource limits with dispose/unregister notifications".into());
                    v.probe("model.ambiguous", 1);
                    replay_complete = false;
                    break 'replay;
                }
                if kind == Kind::Alive {
                    if let Some(last) = m.samples.iter().filter(|s| s.key == *key).map(|s| s.ts).max() {
                        if ts <= last {
                            nonmono = true;
                        }
                    }
                    let n = m.samples.iter().filter(|s| s.key == *key).count() as u32;
                    if cfg.depth > 0 && n >= cfg.depth {
                        replaced = true;
                    }
                }
                match m.receive(kind, *w, *key, *uid, ts) {
                    Rx::Rejected(reasons) => {
                        limit_hit = true;
                        rejects.push((reasons, *key));
                    }
                    Rx::Filtered => tbf_filtered = true,
                    Rx::StateOnly => {
                        if m.inst.get(key).is_some_and(|x| x.state != model::ALIVE) {
                            went_not_alive = true;
                        }
                    }
                    _ => {}
                }
                if m.ambiguous.is_some() {
                    v.probe("model.ambiguous", 1);
                    { replay_complete = false; break 'replay; }
                }
            }
            Op::R { r: 1, .. } => {
                // late joiner of the writer-limits flavour
                if let Res::Samples(res) = &rec.res {
                    let got: Vec<u32> = res.as_ref().map(|l| l.iter().filter(|s| s.valid).map(|s| s.seq).collect()).unwrap_or_default();
                    let mut a = got.clone();
                    a.sort();
                    let mut b = writer_ok.clone();
                    b.sort();
                    if a != b {
                        viol!("C19.writer-stored-mismatch", "C19.writer-stored-mismatch".into(), "a late TRANSIENT_LOCAL reader received {:?} but the accepted writes are {:?} ({} refused with OutOfResources)", a, b, writer_refused);
                    }
                }
            }
            Op::R { r: 0, k, max, m: mk, h, key } => {
                let take = matches!(k, ReadKind::Take | ReadKind::TakeInstance | ReadKind::TakeNextInstance);
                let is_next = matches!(k, ReadKind::ReadNextInstance | ReadKind::TakeNextInstance);
                let is_inst = matches!(k, ReadKind::ReadInstance | ReadKind::TakeInstance);
                // expected selection
                let mut sel_key: Option<u8> = if is_inst { Some(*key) } else { None };
                if is_next {
                    let after: Option<[u8; 16]> = match h {
                        H::Prev => Some(prev.unwrap_or([0; 16])),
                        _ => None,
                    };
                    let mut cand: Vec<u8> = m.inst.keys().copied().filter(|k2| after.is_none_or(|a| handle_of_key(*k2) > a)).collect();
                    cand.sort();
                    let with_data: Option<u8> = cand.iter().copied().find(|k2| !m.select(mk.ss, mk.vs, mk.is, Some(*k2)).is_empty());
                    if cand.first().copied() != with_data {
                        walk_skipped = true;
                    }
                    match with_data {
                        Some(k2) => sel_key = Some(k2),
                        None => sel_key = Some(255), // nothing
                    }
                }
                let expected: Vec<usize> = if sel_key == Some(255) { vec![] } else { m.select(mk.ss, mk.vs, mk.is, sel_key) };
                let exp_uids: Vec<u32> = expected.iter().map(|i| m.samples[*i].uid).collect();
                if mk.ss != 0 || mk.vs != 0 || mk.is != 0 || (*max as usize) < exp_uids.len() || is_inst || is_next {
                    restricting += 1;
                }
                let what = format!("{:?}(max {}, {}{})", k, if *max == i32::MAX { "all".to_string() } else { max.to_string() }, mask_str(mk), if is_inst { format!(", key {key}") } else { String::new() });
                match &rec.res {
                    Res::Samples(Err(E::NoData)) => {
                        if !exp_uids.is_empty() {
                            let rule = if is_next { "C23.nodata-but-instance-exists" } else { "C20.nodata-but-matching" };
                            viol!(rule, format!("{rule}"), "{what} returned NoData but the model holds matching samples {:?}", exp_uids);
                            viol!("C18.content", "C18.content nodata".into(), "{what} returned NoData but the model holds {:?}", exp_uids);
                            { replay_complete = false; break 'replay; }
                        }
                    }
                    Res::Samples(Err(E::BadParameter)) if is_inst => {
                        if m.inst.contains_key(key) {
                            viol!("C20.badparameter-known-instance", "C20.badparameter-known-instance".into(), "{what} returned BadParameter for an instance the reader has received");
                            { replay_complete = false; break 'replay; }
                        }
                    }
                    Res::Samples(Err(e)) => {
                        viol!("C20.error", format!("C20.error {:?}", e), "{what} failed with {:?}", e);
                        { replay_complete = false; break 'replay; }
                    }
                    Res::Samples(Ok(got)) => {
                        reads_with_data += 1;
                        if went_not_alive {
                            read_after_not_alive = true;
                        }
                        if let Some(last) = got.last() {
                            prev = Some(last.ih);
                        }
                        let valid: Vec<&SampleRec> = got.iter().filter(|s| s.valid).collect();
                        let got_uids: Vec<u32> = valid.iter().map(|s| s.seq).collect();
                        let has_invalid = valid.len() != got.len();
                        // --- C21: source order per instance within one result
                        for k2 in got.iter().map(|s| s.key).collect::<std::collections::BTreeSet<u8>>() {
                            let ts: Vec<i64> = valid.iter().filter(|s| s.key == k2).filter_map(|s| s.ts).collect();
                            if ts.windows(2).any(|w| w[0] > w[1]) {
                                viol!("C21.order", "C21.order".into(), "{what}: samples of instance {k2} are not in non-decreasing source-timestamp order: {:?}", ts);
                            }
                        }
                        // --- next_instance: one instance, the right one
                        if is_next {
                            let keys: std::collections::BTreeSet<u8> = got.iter().map(|s| s.ih[0]).collect();
                            if keys.len() > 1 || (sel_key != Some(255) && keys.iter().next().copied() != sel_key) || sel_key == Some(255) {
                                let valid_only = !has_invalid;
                                if valid_only || sel_key.is_some_and(|k2| k2 != 255 && !keys.contains(&k2)) {
                                    viol!("C23.wrong-instance", format!("C23.wrong-instance masks={}", mk.ss != 0 || mk.vs != 0 || mk.is != 0), "{what} after handle {:02x?} returned instance(s) {:?}, expected the first instance with matching samples: {:?}", prev.map(|p| p[0]), keys, sel_key.filter(|k2| *k2 != 255));
                                    { replay_complete = false; break 'replay; }
                                }
                            }
                        }
                        // --- content
                        let exact = (*max as usize) >= exp_uids.len() + if p.has_state_changes { 64 } else { 0 };
                        if exact {
                            // per-instance order and membership must be equal; cross-instance order is judged by grouping
                            let mut ok = true;
                            let keys: std::collections::BTreeSet<u8> = exp_uids.iter().chain(got_uids.iter()).map(|u| recs.iter().find_map(|r| if let Op::W { uid, key, .. } = &r.op { if uid == u { Some(*key) } else { None } } else { None }).unwrap_or(0)).collect();
                            for k2 in keys {
                                let e: Vec<u32> = expected.iter().filter(|i| m.samples[**i].key == k2).map(|i| m.samples[*i].uid).collect();
                                let g: Vec<u32> = valid.iter().filter(|s| s.key == k2).map(|s| s.seq).collect();
                                if e != g {
                                    ok = false;
                                    let mut es = e.clone();
                                    es.sort();
                                    let mut gs = g.clone();
                                    gs.sort();
                                    let same_set = es == gs;
                                    if cfg.by_source && same_set {
                                        // order only: C21's invariant above decides
                                    } else {
                                        viol!("C20.selection", format!("C20.selection same_set={same_set}"), "{what}: instance {k2}: returned {:?}, the model's matching samples are {:?}", g, e);
                                        viol!("C18.content", format!("C18.content depth={} more={}", cfg.depth, g.len() > e.len()), "{what}: instance {k2} holds {:?} but the last {} received samples are {:?}", g, if cfg.depth == 0 { "(all)".to_string() } else { cfg.depth.to_string() }, e);
                                        viol!("C19.content", format!("C19.content more={}", g.len() > e.len()), "{what}: instance {k2} holds {:?} but with limits (max_samples {:?} max_instances {:?} max_samples_per_instance {:?}) the model holds {:?}", g, cfg.max_samples, cfg.max_instances, cfg.max_spi, e);
                                        viol!("C25.content", format!("C25.content more={}", g.len() > e.len()), "{what}: instance {k2} presented {:?} but with minimum_separation {} ns the model presents {:?}", g, cfg.tbf_ns, e);
                                        viol!("C22.content", "C22.content".into(), "{what}: instance {k2}: returned {:?}, model {:?}", g, e);
                                    }
                                }
                            }
                            if !ok {
                                { replay_complete = false; break 'replay; }
                            }
                        } else {
                            // bounded: exactly min(max, matching), a per-instance prefix
                            let want = (*max as usize).min(exp_uids.len());
                            if got.len() != want {
                                viol!("C20.count", format!("C20.count less={}", got.len() < want), "{what} returned {} samples, expected min(max_samples, matching) = {want}", got.len());
                                { replay_complete = false; break 'replay; }
                            }
                            for k2 in valid.iter().map(|s| s.key).collect::<std::collections::BTreeSet<u8>>() {
                                let e: Vec<u32> = expected.iter().filter(|i| m.samples[**i].key == k2).map(|i| m.samples[*i].uid).collect();
                                let g: Vec<u32> = valid.iter().filter(|s| s.key == k2).map(|s| s.seq).collect();
                                if !e.starts_with(&g) {
                                    viol!("C20.prefix", "C20.prefix".into(), "{what}: instance {k2}: returned {:?} is not a prefix of the matching samples {:?}", g, e);
                                    { replay_complete = false; break 'replay; }
                                }
                            }
                        }
                        // --- grouping: samples of one instance contiguous
                        {
                            let mut seen: Vec<u8> = vec![];
                            let mut lastk: Option<u8> = None;
                            for s in got.iter() {
                                let k2 = s.ih[0];
                                if lastk != Some(k2) {
                                    if seen.contains(&k2) {
                                        viol!("C20.grouping", "C20.grouping".into(), "{what}: samples of instance {k2} are not contiguous in the returned collection (instances in order: {:?})", got.iter().map(|s| s.ih[0]).collect::<Vec<u8>>());
                                        break;
                                    }
                                    seen.push(k2);
                                    lastk = Some(k2);
                                }
                            }
                        }
                        // --- per-sample info
                        for (pos, s) in got.iter().enumerate() {
                            let Some(inst) = m.inst.get(&s.ih[0]) else { continue };
                            if s.valid {
                                let Some(ms) = m.samples.iter().find(|x| x.uid == s.seq) else { continue };
                                if s.read != ms.read {
                                    viol!("C20.sample-state", format!("C20.sample-state got_read={}", s.read), "{what}: seq {} reported sample_state READ={} but the model says READ={}", s.seq, s.read, ms.read);
                                }
                                if (s.dgc, s.nwgc) != (ms.dgc, ms.nwgc) {
                                    viol!("C22.generation", "C22.generation".into(), "{what}: seq {} reported disposed/no_writers generation counts ({}, {}) but the instance was at ({}, {}) when it was received", s.seq, s.dgc, s.nwgc, ms.dgc, ms.nwgc);
                                    viol!("C20.generation", "C20.generation".into(), "{what}: seq {} generation counts ({}, {}) expected ({}, {})", s.seq, s.dgc, s.nwgc, ms.dgc, ms.nwgc);
                                }
                                if whandle.get(&ms.writer).is_some_and(|h| *h != s.ph) {
                                    viol!("C20.publication-handle", "C20.publication-handle".into(), "{what}: seq {} publication_handle is not its writer's handle", s.seq);
                                }
                                if s.ih != handle_of_key(s.key) {
                                    viol!("C20.instance-handle", "C20.instance-handle".into(), "{what}: seq {} instance_handle does not match its key", s.seq);
                                }
                                if !has_invalid {
                                    // ranks (2.2.2.5.1.8-10)
                                    let later: Vec<&&SampleRec> = valid[pos..].iter().skip(1).filter(|x| x.key == s.key).collect();
                                    let srank = later.len() as i32;
                                    let mrsic = later.last().map(|x| **x).unwrap_or(s);
                                    let mrsic_m = m.samples.iter().find(|x| x.uid == mrsic.seq);
                                    // MRS: the most recent sample received for the instance, whether or not it is still stored
                                    let mrs = Some(inst.mrs_generation);
                                    if let (Some(mrsic_m), Some(mrs)) = (mrsic_m, mrs) {
                                        let grank = (mrsic_m.dgc + mrsic_m.nwgc) - (ms.dgc + ms.nwgc);
                                        let agrank = mrs - (ms.dgc + ms.nwgc);
                                        if s.srank != srank || s.grank != grank || s.agrank != agrank {
                                            viol!("C20.ranks", format!("C20.ranks s={} g={} a={}", s.srank != srank, s.grank != grank, s.agrank != agrank), "{what}: seq {} reported (sample_rank, generation_rank, absolute_generation_rank) = ({}, {}, {}) but the DDS definitions give ({srank}, {grank}, {agrank})", s.seq, s.srank, s.grank, s.agrank);
                                        }
                                    }
                                }
                            }
                            if s.ist != inst.state {
                                viol!("C22.instance-state", format!("C22.instance-state got={} want={}", s.ist, inst.state), "{what}: instance {} reported instance_state {} but the life cycle gives {} (0 ALIVE, 1 NOT_ALIVE_DISPOSED, 2 NOT_ALIVE_NO_WRITERS)", s.ih[0], s.ist, inst.state);
                                viol!("C20.instance-state", "C20.instance-state".into(), "{what}: instance {} instance_state {} expected {}", s.ih[0], s.ist, inst.state);
                            }
                            if s.new != inst.new {
                                viol!("C22.view-state", format!("C22.view-state got_new={} state={}", s.new, inst.state), "{what}: instance {} reported view_state NEW={} but the model says NEW={} (instance state {}, generations {}/{})", s.ih[0], s.new, inst.new, inst.state, inst.dgc, inst.nwgc);
                                viol!("C20.view-state", format!("C20.view-state got_new={}", s.new), "{what}: instance {} view_state NEW={} expected NEW={}", s.ih[0], s.new, inst.new);
                            }
                        }
                        // mask self-consistency
                        for s in got.iter() {
                            let ss_ok = mk.ss == 0 || (s.read && mk.ss & 1 != 0) || (!s.read && mk.ss & 2 != 0);
                            let vs_ok = mk.vs == 0 || (s.new && mk.vs & 1 != 0) || (!s.new && mk.vs & 2 != 0);
                            let is_ok = mk.is == 0 || (mk.is & (1 << s.ist)) != 0;
                            if !(ss_ok && vs_ok && is_ok) {
                                viol!("C20.mask", "C20.mask".into(), "{what} returned a sample whose own states (READ={}, NEW={}, instance_state {}) are outside the requested masks", s.read, s.new, s.ist);
                            }
                        }
                        // depth / limits invariants on a full read
                        if !is_inst && !is_next && mk.ss == 0 && mk.vs == 0 && mk.is == 0 && *max == i32::MAX {
                            let mut per: BTreeMap<u8, usize> = BTreeMap::new();
                            for s in &valid {
                                *per.entry(s.key).or_default() += 1;
                            }
                            for (k2, n) in &per {
                                if cfg.depth > 0 && *n > cfg.depth as usize {
                                    viol!("C18.depth", "C18.depth".into(), "reader holds {n} samples of instance {k2} with KEEP_LAST({})", cfg.depth);
                                }
                                if cfg.max_spi.is_some_and(|x| *n as i32 > x) {
                                    viol!("C19.over-limit", "C19.over-limit spi".into(), "reader holds {n} samples of instance {k2} with max_samples_per_instance {:?}", cfg.max_spi);
                                }
                            }
                            if cfg.max_samples.is_some_and(|x| valid.len() as i32 > x) {
                                viol!("C19.over-limit", "C19.over-limit samples".into(), "reader holds {} samples with max_samples {:?}", valid.len(), cfg.max_samples);
                            }
                            if cfg.max_instances.is_some_and(|x| per.len() as i32 > x) {
                                viol!("C19.over-limit", "C19.over-limit instances".into(), "reader holds {} instances with max_instances {:?}", per.len(), cfg.max_instances);
                            }
                        }
                        // apply to the model what the implementation did
                        let keys: Vec<u8> = got.iter().map(|s| s.ih[0]).collect();
                        m.access(&got_uids, &keys, take);
                    }
                    _ => {}
                }
            }
            _ => {}
        }
    }
    // sample-rejected status as reported to the reader's listener
    if matches!(prop, "C18" | "C19") && replay_complete && m.ambiguous.is_none() && !v.inconclusive {
        let cbs: Vec<crate::hist::Callback> = with_hist(|h| h.callbacks.iter().filter(|c| c.what == "on_sample_rejected").cloned().collect());
        let reported = cbs.last().map(|c| c.total).unwrap_or(0);
        if reported != rejects.len() as i32 {
            if reported > rejects.len() as i32 && cfg.depth > 0 && cfg.max_spi.is_some_and(|s| s as u32 >= cfg.depth) && cfg.max_samples.is_none() && cfg.max_instances.is_none() {
                viol!("C18.rejected-for-depth", format!("C18.rejected-for-depth spi_eq_depth={}", cfg.max_spi == Some(cfg.depth as i32)), "sample_rejected total_count is {} but the model rejects {}: a KEEP_LAST({}) reader with max_samples_per_instance {:?} must replace the oldest sample instead of rejecting (last_reason {})", reported, rejects.len(), cfg.depth, cfg.max_spi, cbs.last().map(|c| c.code).unwrap_or(0));
            }
            viol!("C19.rejected-count", format!("C19.rejected-count more={}", reported > rejects.len() as i32), "the sample-rejected status reported total_count {} but {} receptions exceeded a limit (max_samples {:?} max_instances {:?} max_samples_per_instance {:?}, history {})", reported, rejects.len(), cfg.max_samples, cfg.max_instances, cfg.max_spi, cfg.depth);
        } else if cbs.len() == rejects.len() {
            for (c, (reasons, key)) in cbs.iter().zip(rejects.iter()) {
                if !reasons.contains(&(c.code as u8)) {
                    viol!("C19.rejected-reason", "C19.rejected-reason".into(), "sample_rejected last_reason is {} but the applicable reasons are {:?} (1 instances, 2 samples, 3 samples per instance)", c.code, reasons);
                }
                if c.last != handle_of_key(*key) {
                    viol!("C19.rejected-handle", "C19.rejected-handle".into(), "sample_rejected last_instance_handle {:02x?} is not the handle of the rejected sample's instance (key {key})", &c.last[..4]);
                }
            }
        }
    }
    if prop == "C18" && cfg.depth > 0 {
        // order-insensitive: no read/take ever returns more than depth data samples of one instance
        for rec in recs.iter() {
            let (Op::R { r: 0, .. }, Res::Samples(Ok(got))) = (&rec.op, &rec.res) else { continue };
            let inst: std::collections::BTreeSet<[u8; 16]> = got.iter().map(|s| s.ih).collect();
            for ih in &inst {
                let held: Vec<u32> = got.iter().filter(|s| s.valid && s.ih == *ih).map(|s| s.seq).collect();
                if held.len() as u32 > cfg.depth {
                    v.violate("C18", "C18.over-depth", "C18.over-depth".into(), format!("one read/take returned {} data samples {:?} of one instance of a KEEP_LAST({}) reader", held.len(), held, cfg.depth));
                }
            }
        }
    }
    if prop == "C19" {
        // order-insensitive: whatever one read/take returns is held by the reader at that moment, so it respects the
        // limits: instances (counting those of which only a dispose/unregister sample is left), samples, samples
        // per instance
        for rec in recs.iter() {
            let (Op::R { r: 0, .. }, Res::Samples(Ok(got))) = (&rec.op, &rec.res) else { continue };
            let inst: std::collections::BTreeSet<[u8; 16]> = got.iter().map(|s| s.ih).collect();
            if cfg.max_instances.is_some_and(|m| inst.len() as i32 > m) {
                v.violate("C19", "C19.over-max-instances", "C19.over-max-instances".into(), format!("one read/take returned samples of {} instances although max_instances is {:?}", inst.len(), cfg.max_instances));
            }
            let n_valid = got.iter().filter(|s| s.valid).count() as i32;
            if cfg.max_samples.is_some_and(|m| n_valid > m) {
                v.violate("C19", "C19.over-max-samples", "C19.over-max-samples".into(), format!("one read/take returned {} data samples although max_samples is {:?}", n_valid, cfg.max_samples));
            }
            for ih in &inst {
                let n = got.iter().filter(|s| s.valid && s.ih == *ih).count() as i32;
                if cfg.max_spi.is_some_and(|m| n > m) {
                    v.violate("C19", "C19.over-max-samples-per-instance", "C19.over-max-samples-per-instance".into(), format!("one read/take returned {} data samples of one instance although max_samples_per_instance is {:?}", n, cfg.max_spi));
                }
            }
        }
        with_hist(|h| {
            if let Some(r) = h.recs.iter().find(|r| r.phase == 2) {
                if let Res::Panic(msg) = &r.res {
                    v.violate("C19", "C19.status-api-panics", "C19.status-api-panics get_sample_rejected_status".to_string(), format!("DataReader::get_sample_rejected_status panicked: {msg}"));
                }
            }
        });
    }
    // C25 order-insensitive safety over everything presented
    if prop == "C25" && cfg.tbf_ns > 0 {
        with_hist(|h| {
            if let Some(log) = h.reader_logs.get(&0) {
                let mut per: BTreeMap<u8, Vec<(i64, u32)>> = BTreeMap::new();
                for (_, _, s) in log {
                    if s.valid {
                        if let Some(t) = s.ts {
                            let e = per.entry(s.key).or_default();
                            if !e.iter().any(|x| x.1 == s.seq) {
                                e.push((t, s.seq));
                            }
                        }
                    }
                }
                for (k2, mut l) in per {
                    l.sort();
                    for w in l.windows(2) {
                        if ((w[1].0 - w[0].0) as u64) < cfg.tbf_ns {
                            v.violate("C25", "C25.too-close", "C25.too-close".into(), format!("reader presented seq {} and seq {} of instance {k2} whose source timestamps are {} ns apart, minimum_separation is {} ns", w[0].1, w[1].1, w[1].0 - w[0].0, cfg.tbf_ns));
                        }
                    }
                }
            }
        });
    }
    if prop == "C18" && v.violations.is_empty() {
        // departure phase: every sample the reader held just before is still there afterwards
        with_hist(|h| {
            let before: Option<Vec<u32>> = h.recs.iter().rev().find_map(|r| if let (1, Op::R { k: ReadKind::Read, h: H::None, .. }, Res::Samples(res)) = (r.phase, &r.op, &r.res) { Some(res.as_ref().map(|l| l.iter().filter(|s| s.valid).map(|s| s.seq).collect()).unwrap_or_default()) } else { None });
            let after: Option<Vec<u32>> = h.recs.iter().find_map(|r| if let (2, Op::R { .. }, Res::Samples(res)) = (r.phase, &r.op, &r.res) { Some(res.as_ref().map(|l| l.iter().filter(|s| s.valid).map(|s| s.seq).collect()).unwrap_or_default()) } else { None });
            let gone = h.recs.iter().any(|r| r.phase == 2 && matches!((&r.op, &r.res), (Op::Discovered { .. }, Res::Handles(Ok(l))) if l.len() <= 1));
            if let (Some(b), Some(a)) = (before, after) {
                v.probe("departure_checked", 1);
                v.probe("departure_seen_by_reader", gone as u64);
                let lost: Vec<u32> = b.iter().filter(|u| !a.contains(u)).copied().collect();
                if !lost.is_empty() {
                    v.violate("C18", "C18.samples-lost-on-writer-departure", "C18.samples-lost-on-writer-departure".into(), format!("the reader held samples {b:?} (received, not taken); after the writer's participant went away a read returns {a:?}: samples {lost:?} disappeared without having been taken"));
                }
            }
        });
    }
    v.probe("reads_with_data", reads_with_data);
    v.probe("restricting_reads", restricting);
    v.probe("replaced", replaced as u64);
    v.probe("limit_hit", limit_hit as u64);
    v.probe("went_not_alive", went_not_alive as u64);
    v.probe("tbf_filtered", tbf_filtered as u64);
    v.nontrivial = match prop {
        "C18" => reads_with_data > 0 && (replaced || (cfg.depth == 0 && m.samples.len() >= 3)),
        "C19" => limit_hit,
        "C20" => reads_with_data >= 3 && restricting > 0,
        "C21" => nonmono && reads_with_data > 0,
        "C22" => went_not_alive && read_after_not_alive,
        "C23" => walk_skipped,
        "C25" => tbf_filtered,
        _ => false,
    };
    v
}

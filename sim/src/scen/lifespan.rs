//! C29: expired samples (lifespan) are never delivered.

use super::*;
use crate::hist::{with_hist, Res};
use crate::net::{with_net, FaultRule, Partition};
use crate::wire::{self, Sub};

pub fn defs() -> Vec<ScenarioDef> {
    vec![ScenarioDef {
        name: "lifespan",
        prop: "C29",
        plan: plan_c29,
        check: check_c29,
        nontrivial_rule: "at least one DATA datagram carrying a sample arrived at a reader's node (or a reader joined) after that sample's source timestamp + lifespan",
        quick_runs: 2500,
        thorough_runs: 150000,
        died_is_violation: false,
    }]
}

#[derive(Clone, Debug, Serialize, Deserialize, Default)]
struct P {
    lifespan_ns: u64,
    /// (reader id, participant, late)
    readers: Vec<(u32, u32, bool)>,
}

fn plan_c29(seed: u64, tier: &str) -> Plan {
    let mut r = Rng::derive(seed, "lifespan");
    let mut plan = base_plan("lifespan", seed, tier, &mut r);
    plan.net.fragment_size = *r.pick(&[1344usize, 1344, 4096, 65000]);
    plan.net.latency_us = r.range(10, 3000);
    let l = *r.pick(&[1_000_000u64, 50_000_000, 50_000_000, 1_000_000_000]);
    let mut setup = vec![
        Op::CreateParticipant { p: 0, domain: 0, tag: String::new(), announce_ms: r.range(50, 1000), q: Q::default(), l: None },
        Op::CreateTopic { p: 0, id: 0, name: "T".into(), ty: Ty::Keyed, q: Q::default(), l: None },
        Op::CreatePublisher { p: 0, id: 0, q: Q::default(), l: None },
        Op::CreateWriter { id: 0, publisher: 0, topic: 0, q: Q { reliable: Some(true), durability: Some(1), history: Some(0), mbt_ms: Some(-1), lifespan_ns: Some(l), ..Default::default() }, l: None },
        Op::CreateParticipant { p: 1, domain: 0, tag: String::new(), announce_ms: r.range(50, 1000), q: Q::default(), l: None },
        Op::CreateTopic { p: 1, id: 0, name: "T".into(), ty: Ty::Keyed, q: Q::default(), l: None },
        Op::CreateSubscriber { p: 1, id: 1, q: Q::default(), l: None },
        Op::CreateReader { id: 0, subscriber: 1, topic: 0, q: Q { reliable: Some(true), durability: Some(1), history: Some(0), ..Default::default() }, l: None },
        Op::WaitMatched { kind: "writer".into(), id: 0, n: 1, timeout_ms: 30_000 },
        Op::WaitMatched { kind: "reader".into(), id: 0, n: 1, timeout_ms: 30_000 },
        Op::Sleep { us: 200_000 },
    ];
    let mut readers = vec![(0u32, 1u32, false)];
    let two_p = r.chance(0.5);
    if two_p {
        setup.push(Op::CreateParticipant { p: 2, domain: 0, tag: String::new(), announce_ms: r.range(50, 1000), q: Q::default(), l: None });
        setup.push(Op::CreateTopic { p: 2, id: 0, name: "T".into(), ty: Ty::Keyed, q: Q::default(), l: None });
        setup.push(Op::CreateSubscriber { p: 2, id: 2, q: Q::default(), l: None });
        setup.push(Op::Sleep { us: 1_500_000 });
    }
    plan.phases.push(phase("setup", true, vec![script(setup)]));
    let lms = (l / 1_000_000).max(1);
    match r.weighted(&[2, 3, 3, 2]) {
        0 => {}
        1 => plan.net.rules.push(FaultRule { from_ms: 0, to_ms: 10_000_000, src: None, dst: None, class: wire::C_USER_FWD, drop: r.f64() * 0.6, dup: r.f64() * 0.2, jitter_us: 0 }),
        2 => plan.net.rules.push(FaultRule { from_ms: 0, to_ms: 10_000_000, src: None, dst: None, class: wire::C_UDATA | wire::C_UFRAG, drop: 0.0, dup: r.f64() * 0.3, jitter_us: r.range(1, 3 * l / 1000 + 10) }),
        _ => {
            let a = 2000 + r.range(0, 500);
            plan.net.partitions.push(Partition { from_ms: a, to_ms: a + r.range(1, 3 * lms + 5), a: vec![0], b: vec![1, 2], class: wire::C_USER, oneway: false });
        }
    }
    let n = if tier == "quick" { r.usize(2, 12) } else { r.usize(2, 30) };
    let mut ops = vec![];
    let mut uid = 1u32;
    for _ in 0..n {
        let back = match r.below(4) {
            0 => 0i64,
            1 => -((l / 2) as i64),
            2 => -((l as i64) - r.range(0, 2_000_000) as i64).max(0),
            _ => -(r.range(0, 2 * l) as i64),
        };
        ops.push(Op::W { w: 0, k: WKind::Write, key: r.below(3) as u8, len: r.range(0, 20), x: uid as i32, name: String::new(), ts: Some(back), h: H::None, uid });
        uid += 1;
        ops.push(Op::Sleep { us: *r.pick(&[0u64, 200, 1000, l / 2000 + 1, l / 1000 + 1, 3 * l / 1000]) });
    }
    let mut clients = vec![script(ops)];
    // late joiners
    let mut jops = vec![Op::Sleep { us: r.range(0, 4 * l / 1000 + 2000) }];
    let sub = if two_p { 2 } else { 1 };
    for i in 0..r.usize(1, 2) as u32 {
        let tl = r.chance(0.8);
        jops.push(Op::CreateReader { id: 1 + i, subscriber: sub, topic: 0, q: Q { reliable: Some(true), durability: Some(if tl { 1 } else { 0 }), history: Some(0), ..Default::default() }, l: None });
        readers.push((1 + i, sub, true));
        jops.push(Op::Sleep { us: r.range(0, l / 1000 + 500) });
    }
    clients.push(script(jops));
    plan.phases.push(phase("workload", false, clients));
    // readers are polled every millisecond until everything has settled
    let mut fin = vec![script(vec![Op::Sleep { us: 3_000_000 + 4 * l / 1000 }])];
    for (id, _, _) in &readers {
        fin.push(daemon(vec![Op::Drain { r: *id, period_us: 1000, read_only: false }]));
    }
    // the workload phase needs the drains too
    let ph = plan.phases.last_mut().unwrap();
    ph.clients.push(daemon(vec![Op::Drain { r: 0, period_us: 1000, read_only: false }]));
    plan.phases.push(phase("settle", true, fin));
    plan.max_sim_ms = 600_000;
    plan.max_steps = 2_000_000;
    plan.params = serde_json::to_value(P { lifespan_ns: l, readers }).unwrap();
    plan
}

const SLACK_NS: i64 = 5_000_000;

fn check_c29(plan: &Plan, out: &Outcome) -> Verdict {
    let mut v = Verdict::default();
    let p: P = serde_json::from_value(plan.params.clone()).unwrap_or_default();
    if !out.panics.is_empty() {
        v.inconclusive = true;
        return v;
    }
    let epoch_ns = plan.time.epoch_s as i64 * 1_000_000_000;
    let l = p.lifespan_ns as i64;
    let st = out.world.st.borrow();
    let mut late_arrivals = 0u64;
    with_hist(|h| {
        if h.recs.iter().any(|r| r.phase == 0 && r.res.err().is_some()) {
            v.inconclusive = true;
            return;
        }
        // sequence number of each Ok write (single writer client): 1-based order of successful writes
        let mut sn_of: BTreeMap<u32, i64> = BTreeMap::new();
        let mut sn = 0i64;
        for rec in h.recs.iter().filter(|r| r.phase == 1) {
            if let (Op::W { uid, .. }, Res::Unit(Ok(()))) = (&rec.op, &rec.res) {
                sn += 1;
                sn_of.insert(*uid, sn);
            }
        }
        let ts_of = &h.w_ts;
        with_net(|net| {
            for (rid, _p, _late) in &p.readers {
                let Some(ri) = st.readers.get(rid) else { continue };
                let Some(node) = st.participants.get(&ri.p).map(|x| x.1) else { continue };
                let eid = u32::from_be_bytes([ri.handle[12], ri.handle[13], ri.handle[14], ri.handle[15]]);
                // first arrival of each sn addressed to this reader
                let mut first: BTreeMap<i64, u64> = BTreeMap::new();
                for w in net.wire.iter().filter(|w| w.dst == node && w.t_arr.is_some() && w.delivered_step.is_some()) {
                    for s in &w.parsed.subs {
                        if let Sub::Data { reader, writer, sn, .. } = s {
                            if !wire::is_builtin(*writer) && (*reader == eid || *reader == 0) {
                                let t = w.t_arr.unwrap();
                                let e = first.entry(*sn).or_insert(t);
                                if t < *e {
                                    *e = t;
                                }
                            }
                        }
                    }
                }
                for (uid, sn) in &sn_of {
                    if let (Some(ts), Some(arr)) = (ts_of.get(uid), first.get(sn)) {
                        if epoch_ns + *arr as i64 > ts + l {
                            late_arrivals += 1;
                        }
                    }
                }
                let Some(log) = h.reader_logs.get(rid) else { continue };
                for (_, t_pres, s) in log.iter().filter(|x| x.2.valid) {
                    let (Some(ts), Some(sn)) = (ts_of.get(&s.seq), sn_of.get(&s.seq)) else { continue };
                    let Some(arr) = first.get(sn) else { continue };
                    let arr_abs = epoch_ns + *arr as i64;
                    if arr_abs > ts + l + SLACK_NS {
                        let how = if *_late { "late-joiner" } else { "matched-reader" };
                        v.violate(
                            "C29",
                            "C29.expired-delivered",
                            format!("C29.expired-delivered {how}"),
                            format!("reader {rid} presented seq {} at t={:.6}s: it first arrived at the reader's node {} us after its source timestamp, lifespan is {} us", s.seq, *t_pres as f64 / 1e9, (arr_abs - ts) / 1000, l / 1000),
                        );
                    }
                }
            }
        });
    });
    v.probe("late_arrivals", late_arrivals);
    v.nontrivial = late_arrivals > 0;
    v
}

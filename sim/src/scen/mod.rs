//! Scenarios: plan generators (pure functions of the seed) and oracles over the recorded history.

use crate::core::{SchedKind, SchedPlan, TimePlan};
use crate::net::NetPlan;
use crate::plan::*;
use crate::rng::Rng;
use crate::runner::Outcome;
use serde::{Deserialize, Serialize};
use std::collections::BTreeMap;

pub mod stream;
pub mod acks;
pub mod durability;
pub mod cache;
pub mod blocking;
pub mod lifespan;
pub mod deadline;
pub mod discovery;
pub mod worker;
pub mod rxo;
pub mod matched;
pub mod api;
pub mod waitset;
pub mod listeners;
pub mod filter;
pub mod ownership;
pub mod hostile;

#[derive(Clone, Debug, Serialize, Deserialize, PartialEq)]
pub struct Violation {
    pub prop: String,
    pub rule: String,
    /// rule + minimal discriminating facts; known findings are keyed by this
    pub sig: String,
    pub detail: String,
}

#[derive(Default)]
pub struct Verdict {
    pub violations: Vec<Violation>,
    pub nontrivial: bool,
    pub inconclusive: bool,
    pub probes: BTreeMap<String, u64>,
}

impl Verdict {
    pub fn probe(&mut self, k: &str, n: u64) {
        *self.probes.entry(k.to_string()).or_insert(0) += n;
    }
    pub fn violate(&mut self, prop: &str, rule: &str, sig: String, detail: String) {
        if !self.violations.iter().any(|v| v.sig == sig) {
            self.violations.push(Violation { prop: prop.into(), rule: rule.into(), sig, detail });
        }
    }
}

pub struct ScenarioDef {
    pub name: &'static str,
    pub prop: &'static str,
    pub plan: fn(seed: u64, tier: &str) -> Plan,
    pub check: fn(plan: &Plan, out: &Outcome) -> Verdict,
    pub nontrivial_rule: &'static str,
    pub quick_runs: u64,
    pub thorough_runs: u64,
    /// a simulated process that is killed (watchdog, abort, stack overflow) counts as a violation
    pub died_is_violation: bool,
}

pub fn all() -> Vec<ScenarioDef> {
    let mut v = vec![];
    v.extend(stream::defs());
    v.extend(acks::defs());
    v.extend(durability::defs());
    v.extend(cache::defs());
    v.extend(blocking::defs());
    v.extend(lifespan::defs());
    v.extend(deadline::defs());
    v.extend(discovery::defs());
    v.extend(worker::defs());
    v.extend(rxo::defs());
    v.extend(matched::defs());
    v.extend(api::defs());
    v.extend(waitset::defs());
    v.extend(listeners::defs());
    v.extend(filter::defs());
    v.extend(ownership::defs());
    v.extend(hostile::defs());
    v
}

pub fn find(name: &str) -> Option<ScenarioDef> {
    all().into_iter().find(|s| s.name == name || s.prop == name)
}

// ---- shared generator helpers -----------------------------------------------------------------

pub fn gen_time(r: &mut Rng) -> TimePlan {
    TimePlan { epoch_s: r.range(1_000_000, 2_000_000_000), read_cost_ns: r.range(50, 500), poll_cost_ns: r.range(1_000, 50_000), poll_jitter_ns: r.range(0, 20_000), timer_late_ns: 0 }
}

pub fn gen_sched(r: &mut Rng, horizon: u64) -> SchedPlan {
    let kind = match r.weighted(&[3, 4, 3]) {
        0 => SchedKind::Fifo,
        1 => SchedKind::Random,
        _ => SchedKind::Pct { depth: r.range(1, 5) as u32, horizon },
    };
    SchedPlan { kind, seed: r.next_u64(), starve: None }
}

pub fn gen_fragment_size(r: &mut Rng) -> usize {
    match r.weighted(&[4, 3, 2, 1]) {
        0 => 1344,
        1 => *r.pick(&[8usize, 9, 16, 32, 100, 256]),
        2 => r.usize(8, 2000),
        _ => *r.pick(&[4096usize, 16384, 65000]),
    }
}

pub fn base_plan(scenario: &str, seed: u64, tier: &str, r: &mut Rng) -> Plan {
    let frag = gen_fragment_size(r);
    Plan {
        scenario: scenario.into(),
        seed,
        tier: tier.into(),
        time: gen_time(r),
        sched: gen_sched(r, 20_000),
        net: NetPlan { latency_us: r.range(10, 20_000), jitter_us: r.range(0, 200), ..NetPlan::clean(r.next_u64(), frag) },
        max_steps: 400_000,
        max_sim_ms: 120_000,
        phases: vec![],
        params: serde_json::Value::Null,
    }
}

pub fn script(ops: Vec<Op>) -> Script {
    Script { daemon: false, ops }
}
pub fn daemon(ops: Vec<Op>) -> Script {
    Script { daemon: true, ops }
}
pub fn phase(name: &str, fixed: bool, clients: Vec<Script>) -> Phase {
    Phase { name: name.into(), clients, fixed }
}

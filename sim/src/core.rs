//! Single-threaded deterministic executor, virtual clock and timers.
//! Everything dust-dds does in a simulated run happens inside `Future::poll` calls made here.

use crate::rng::{Fnv, Rng};
use dust_dds::infrastructure::time::Time;
use dust_dds::runtime::{Clock, DdsRuntime, Spawner, TaskHandle, Timer};
use serde::{Deserialize, Serialize};
use std::cell::RefCell;
use std::collections::{BTreeMap, BinaryHeap};
use std::future::Future;
use std::pin::Pin;
use std::sync::atomic::{AtomicBool, Ordering};
use std::sync::{Arc, Mutex};
use std::task::{Context, Poll, Wake, Waker};

pub type TaskId = usize;

#[derive(Clone, Copy, PartialEq, Eq, Debug, Serialize, Deserialize, PartialOrd, Ord)]
#[serde(rename_all = "lowercase")]
pub enum Class {
    Worker,
    Listener,
    Client,
    Delivery,
}

#[derive(Clone, Debug, Serialize, Deserialize, PartialEq)]
#[serde(tag = "kind", rename_all = "lowercase")]
pub enum SchedKind {
    Fifo,
    Random,
    Pct { depth: u32, horizon: u64 },
}

#[derive(Clone, Debug, Serialize, Deserialize, PartialEq)]
pub struct Starve {
    pub class: Class,
    pub from_step: u64,
    pub steps: u64,
}

#[derive(Clone, Debug, Serialize, Deserialize, PartialEq)]
pub struct SchedPlan {
    #[serde(flatten)]
    pub kind: SchedKind,
    pub seed: u64,
    #[serde(default, skip_serializing_if = "Option::is_none")]
    pub starve: Option<Starve>,
}

#[derive(Clone, Debug, Serialize, Deserialize, PartialEq)]
pub struct TimePlan {
    pub epoch_s: u64,
    pub read_cost_ns: u64,
    pub poll_cost_ns: u64,
    pub poll_jitter_ns: u64,
    #[serde(default)]
    pub timer_late_ns: u64,
}

struct TW {
    id: TaskId,
    queued: AtomicBool,
    q: Arc<Mutex<Vec<TaskId>>>,
}
impl Wake for TW {
    fn wake(self: Arc<Self>) {
        self.wake_by_ref()
    }
    fn wake_by_ref(self: &Arc<Self>) {
        if !self.queued.swap(true, Ordering::SeqCst) {
            self.q.lock().unwrap().push(self.id);
        }
    }
}

pub type LocalFut = Pin<Box<dyn Future<Output = ()>>>;

struct Task {
    fut: Option<LocalFut>,
    class: Class,
    tw: Arc<TW>,
    waker: Waker,
    done: bool,
    prio: u64,
    pub polls: u64,
    /// step at which the task became runnable (PCT fairness bound)
    queued_at: u64,
}

#[derive(PartialEq, Eq, PartialOrd, Ord)]
struct Ev {
    t: u64,
    seq: u64,
    kind: EvKind,
}
#[derive(PartialEq, Eq, PartialOrd, Ord)]
enum EvKind {
    Timer(u64),
    Net(u64),
}

struct TimerState {
    waker: Option<Waker>,
    fired: bool,
}

#[derive(Clone, Debug)]
pub struct PanicRec {
    pub step: u64,
    pub now: u64,
    pub class: Class,
    pub task: TaskId,
    pub msg: String,
}

#[derive(Clone, Debug)]
pub struct DelayRec {
    pub step: u64,
    pub now: u64,
    pub class: Class,
    pub dur_ns: u64,
}

pub struct Core {
    pub now: u64,
    pub tp: TimePlan,
    seq: u64,
    pub step: u64,
    events: BinaryHeap<std::cmp::Reverse<Ev>>,
    tasks: Vec<Task>,
    run_q: Vec<TaskId>,
    wake_q: Arc<Mutex<Vec<TaskId>>>,
    timers: BTreeMap<u64, TimerState>,
    next_timer: u64,
    sched: SchedPlan,
    sched_rng: Rng,
    cost_rng: Rng,
    pct_changes: Vec<u64>,
    pct_low: u64,
    pub current: Option<TaskId>,
    pub panics: Vec<PanicRec>,
    pub delays: Vec<DelayRec>,
    pub worker_polls: Vec<u64>, // sim time of each worker poll (C31)
    pub fp: Fnv,
    pub stats: BTreeMap<String, u64>,
    pub trace: Option<Vec<String>>,
    pub spawned_by_dds: u64,
    pub net_due: Vec<u64>,
    pub sched_counts: [u64; 4],
    /// bytes of datagrams handed to the participants since the last worker poll (C06 allocation bound)
    pub bytes_since_worker_poll: u64,
    /// (step, heap growth during the worker poll, bytes received since the previous worker poll)
    pub alloc_excess: Vec<(u64, u64, u64)>,
    pub max_worker_growth: u64,
}

thread_local! {
    pub static CORE: RefCell<Option<Core>> = const { RefCell::new(None) };
    pub static LAST_PANIC: RefCell<Option<String>> = const { RefCell::new(None) };
}

pub fn with_core<R>(f: impl FnOnce(&mut Core) -> R) -> R {
    let _sim = crate::alloc_count::exempt();
    CORE.with(|c| f(c.borrow_mut().as_mut().expect("core not initialised")))
}

pub fn stat(name: &str, n: u64) {
    with_core(|c| *c.stats.entry(name.to_string()).or_insert(0) += n);
}

pub fn init(tp: TimePlan, sched: SchedPlan, trace: bool) {
    std::panic::set_hook(Box::new(|info| {
        let msg = if let Some(s) = info.payload().downcast_ref::<&str>() {
            s.to_string()
        } else if let Some(s) = info.payload().downcast_ref::<String>() {
            s.clone()
        } else {
            "<non-string panic>".to_string()
        };
        let loc = info.location().map(|l| format!("{}:{}", l.file(), l.line())).unwrap_or_default();
        LAST_PANIC.with(|p| *p.borrow_mut() = Some(format!("{} @ {}", msg, loc)));
    }));
    let sched_rng = Rng::derive(sched.seed, "sched");
    let cost_rng = Rng::derive(sched.seed, "cost");
    let mut pct_changes = vec![];
    if let SchedKind::Pct { depth, horizon } = &sched.kind {
        let mut r = Rng::derive(sched.seed, "pct");
        for _ in 0..*depth {
            pct_changes.push(r.below((*horizon).max(1)));
        }
        pct_changes.sort();
    }
    let core = Core {
        now: 0,
        tp,
        seq: 0,
        step: 0,
        events: BinaryHeap::new(),
        tasks: Vec::new(),
        run_q: Vec::new(),
        wake_q: Arc::new(Mutex::new(Vec::new())),
        timers: BTreeMap::new(),
        next_timer: 0,
        sched,
        sched_rng,
        cost_rng,
        pct_changes,
        pct_low: 0,
        current: None,
        panics: vec![],
        delays: vec![],
        worker_polls: vec![],
        fp: Fnv::new(),
        stats: BTreeMap::new(),
        trace: if trace { Some(vec![]) } else { None },
        spawned_by_dds: 0,
        net_due: vec![],
        sched_counts: [0; 4],
        bytes_since_worker_poll: 0,
        alloc_excess: vec![],
        max_worker_growth: 0,
    };
    CORE.with(|c| *c.borrow_mut() = Some(core));
}

impl Core {
    pub fn trace(&mut self, f: impl FnOnce() -> String) {
        if self.trace.is_some() {
            let s = format!("[{:>7} {:>12.6}] {}", self.step, self.now as f64 / 1e9, f());
            self.trace.as_mut().unwrap().push(s);
        }
    }
    fn push_event(&mut self, t: u64, kind: EvKind) {
        self.seq += 1;
        let seq = self.seq;
        self.events.push(std::cmp::Reverse(Ev { t, seq, kind }));
    }
    pub fn schedule_net(&mut self, t: u64, id: u64) {
        self.push_event(t, EvKind::Net(id));
    }
    pub fn spawn_local(&mut self, class: Class, fut: LocalFut) -> TaskId {
        let id = self.tasks.len();
        let tw = Arc::new(TW { id, queued: AtomicBool::new(true), q: self.wake_q.clone() });
        let waker = Waker::from(tw.clone());
        // PCT: priorities are random, high; change points push a task below all others
        let prio = 1_000_000 + self.sched_rng.below(1_000_000);
        let queued_at = self.step;
        self.tasks.push(Task { fut: Some(fut), class, tw, waker, done: false, prio, polls: 0, queued_at });
        self.run_q.push(id);
        self.fp.u64(0xA1);
        self.fp.u64(id as u64);
        self.trace(|| format!("spawn task {} {:?}", id, class));
        id
    }
    pub fn task_done(&self, id: TaskId) -> bool {
        self.tasks[id].done
    }
    pub fn task_class(&self, id: TaskId) -> Class {
        self.tasks[id].class
    }
    pub fn current_class(&self) -> Option<Class> {
        self.current.map(|t| self.tasks[t].class)
    }
    pub fn cancel_task(&mut self, id: TaskId) -> Option<LocalFut> {
        self.tasks[id].done = true;
        self.tasks[id].fut.take()
    }
    pub fn abs_time_ns(&self) -> u64 {
        self.tp.epoch_s * 1_000_000_000 + self.now
    }
    pub fn pending_events(&self) -> usize {
        self.events.len()
    }
}

/// What made `run` return.
#[derive(Debug, PartialEq, Clone, Copy)]
pub enum Stop {
    Cond,
    Idle,
    StepCap,
    TimeCap,
}

/// Run the simulation until `cond` holds (checked between steps), or a cap is hit.
pub fn run(max_step: u64, max_now: u64, mut cond: impl FnMut() -> bool) -> Stop {
    loop {
        // 1. move woken tasks into the run queue
        with_core(|c| {
            let mut w = c.wake_q.lock().unwrap();
            let woken: Vec<TaskId> = w.drain(..).collect();
            drop(w);
            for id in woken {
                if !c.tasks[id].done {
                    c.tasks[id].queued_at = c.step;
                    c.run_q.push(id);
                }
            }
        });
        if cond() {
            return Stop::Cond;
        }
        // 2. fire due events
        let fired = fire_due_events();
        if fired {
            continue;
        }
        let (nrun, nev, step, now) = with_core(|c| (c.run_q.len(), c.events.len(), c.step, c.now));
        if step >= max_step {
            return Stop::StepCap;
        }
        if now >= max_now {
            return Stop::TimeCap;
        }
        if nrun == 0 {
            if nev == 0 {
                return Stop::Idle;
            }
            // jump the clock
            with_core(|c| {
                let t = c.events.peek().unwrap().0.t;
                if t > c.now {
                    c.now = t;
                }
            });
            continue;
        }
        // 3. pick a task
        let picked = with_core(|c| c.pick());
        let Some(id) = picked else {
            // only starved tasks runnable: advance to next event or end starvation
            with_core(|c| {
                if let Some(e) = c.events.peek() {
                    let t = e.0.t;
                    if t > c.now {
                        c.now = t;
                    }
                } else {
                    c.sched.starve = None;
                }
            });
            continue;
        };
        poll_task(id);
    }
}

fn fire_due_events() -> bool {
    let mut any = false;
    loop {
        let ev = with_core(|c| {
            if let Some(e) = c.events.peek() {
                if e.0.t <= c.now {
                    return Some(c.events.pop().unwrap().0);
                }
            }
            None
        });
        let Some(ev) = ev else { break };
        any = true;
        match ev.kind {
            EvKind::Timer(id) => {
                let w = with_core(|c| {
                    c.fp.u64(0xB1);
                    c.fp.u64(id);
                    if let Some(ts) = c.timers.get_mut(&id) {
                        ts.fired = true;
                        ts.waker.take()
                    } else {
                        None
                    }
                });
                if let Some(w) = w {
                    w.wake();
                }
            }
            EvKind::Net(id) => {
                crate::net::arrival(id);
            }
        }
    }
    any
}

impl Core {
    fn pick(&mut self) -> Option<TaskId> {
        // starvation window
        let mut candidates: Vec<usize> = (0..self.run_q.len()).collect();
        if let Some(s) = &self.sched.starve {
            if self.step >= s.from_step && self.step < s.from_step + s.steps {
                let cl = s.class;
                candidates.retain(|&i| self.tasks[self.run_q[i]].class != cl);
                if candidates.is_empty() {
                    return None;
                }
            }
        }
        let idx = match &self.sched.kind {
            SchedKind::Fifo => candidates[0],
            SchedKind::Random => candidates[self.sched_rng.below(candidates.len() as u64) as usize],
            SchedKind::Pct { .. } => {
                let mut best = candidates[0];
                for &i in &candidates {
                    if self.tasks[self.run_q[i]].prio > self.tasks[self.run_q[best]].prio {
                        best = i;
                    }
                }
                // bounded bypass: a runnable task is not passed over for more than PCT_FAIR steps (every real
                // executor is fair in this sense; without it two busy-polling high-priority tasks livelock the run)
                const PCT_FAIR: u64 = 2000;
                let oldest = *candidates.iter().min_by_key(|&&i| self.tasks[self.run_q[i]].queued_at).unwrap();
                if self.step.saturating_sub(self.tasks[self.run_q[oldest]].queued_at) > PCT_FAIR {
                    best = oldest;
                }
                if self.pct_changes.first().is_some_and(|s| *s <= self.step) {
                    self.pct_changes.remove(0);
                    self.pct_low += 1;
                    let t = self.run_q[best];
                    self.tasks[t].prio = 1000 - self.pct_low.min(999);
                }
                best
            }
        };
        Some(self.run_q.remove(idx))
    }
}

fn poll_task(id: TaskId) {
    let (fut, waker) = with_core(|c| {
        let t = &mut c.tasks[id];
        t.tw.queued.store(false, Ordering::SeqCst);
        if t.done {
            return (None, None);
        }
        t.polls += 1;
        let class = t.class;
        c.current = Some(id);
        if class == Class::Worker {
            let now = c.now;
            c.worker_polls.push(now);
        }
        c.sched_counts[class as usize] += 1;
        let t = &mut c.tasks[id];
        (t.fut.take(), Some(t.waker.clone()))
    });
    let (Some(mut fut), Some(waker)) = (fut, waker) else { return };
    let mut cx = Context::from_waker(&waker);
    let is_worker = with_core(|c| c.tasks[id].class == Class::Worker);
    let heap0 = if is_worker { crate::alloc_count::begin() } else { 0 };
    let res = std::panic::catch_unwind(std::panic::AssertUnwindSafe(|| fut.as_mut().poll(&mut cx)));
    if is_worker {
        let growth = crate::alloc_count::peak().saturating_sub(heap0).saturating_sub(crate::alloc_count::exempt_bytes()) as u64;
        with_core(|c| {
            let bytes = std::mem::take(&mut c.bytes_since_worker_poll);
            c.max_worker_growth = c.max_worker_growth.max(growth);
            if growth > (1 << 20) + 256 * bytes {
                let step = c.step;
                c.alloc_excess.push((step, growth, bytes));
            }
        });
    }
    let mut drop_later: Option<LocalFut> = None;
    with_core(|c| {
        c.current = None;
        c.step += 1;
        let cost = c.tp.poll_cost_ns + if c.tp.poll_jitter_ns > 0 { c.cost_rng.below(c.tp.poll_jitter_ns) } else { 0 };
        c.now += cost;
        let code = match &res {
            Ok(Poll::Ready(())) => 1u64,
            Ok(Poll::Pending) => 0,
            Err(_) => 2,
        };
        c.fp.u64(0xC1);
        c.fp.u64(id as u64);
        c.fp.u64(code);
        let class = c.tasks[id].class;
        c.trace(|| format!("poll task {} {:?} -> {}", id, class, ["pending", "ready", "PANIC"][code as usize]));
        match res {
            Ok(Poll::Pending) => {
                if c.tasks[id].done {
                    drop_later = Some(fut); // cancelled while running
                } else {
                    c.tasks[id].fut = Some(fut);
                }
            }
            Ok(Poll::Ready(())) => {
                c.tasks[id].done = true;
                drop_later = Some(fut);
            }
            Err(_) => {
                let msg = LAST_PANIC.with(|p| p.borrow_mut().take()).unwrap_or_default();
                c.tasks[id].done = true;
                let (step, now) = (c.step, c.now);
                c.trace(|| format!("PANIC in task {}: {}", id, msg));
                c.panics.push(PanicRec { step, now, class, task: id, msg });
                // the future's state is poisoned; leak it rather than run its destructors
                std::mem::forget(fut);
            }
        }
    });
    drop(drop_later);
}

// ---------------------------------------------------------------------------------------------
// runtime handed to dust-dds

#[derive(Clone)]
pub struct SimClock;
impl Clock for SimClock {
    fn now(&self) -> Time {
        with_core(|c| {
            let t = c.abs_time_ns();
            c.now += c.tp.read_cost_ns;
            Time::new((t / 1_000_000_000) as i32, (t % 1_000_000_000) as u32)
        })
    }
}

pub fn now_ns() -> u64 {
    with_core(|c| c.now)
}
pub fn abs_now_ns() -> u64 {
    with_core(|c| c.abs_time_ns())
}
pub fn step() -> u64 {
    with_core(|c| c.step)
}

pub struct SimSleep {
    dur_ns: u64,
    id: Option<u64>,
}
impl Future for SimSleep {
    type Output = ();
    fn poll(mut self: Pin<&mut Self>, cx: &mut Context<'_>) -> Poll<()> {
        let dur = self.dur_ns;
        match self.id {
            None => {
                let id = with_core(|c| {
                    let id = c.next_timer;
                    c.next_timer += 1;
                    let class = c.current_class().unwrap_or(Class::Client);
                    let (step, now) = (c.step, c.now);
                    if class == Class::Worker {
                        c.delays.push(DelayRec { step, now, class, dur_ns: dur });
                    }
                    let late = if c.tp.timer_late_ns > 0 { c.cost_rng.below(c.tp.timer_late_ns + 1) } else { 0 };
                    let deadline = c.now.saturating_add(dur).saturating_add(late);
                    c.timers.insert(id, TimerState { waker: Some(cx.waker().clone()), fired: false });
                    c.push_event(deadline, EvKind::Timer(id));
                    id
                });
                self.id = Some(id);
                Poll::Pending
            }
            Some(id) => with_core(|c| match c.timers.get_mut(&id) {
                Some(ts) if ts.fired => Poll::Ready(()),
                Some(ts) => {
                    ts.waker = Some(cx.waker().clone());
                    Poll::Pending
                }
                None => Poll::Ready(()),
            }),
        }
    }
}
impl Drop for SimSleep {
    fn drop(&mut self) {
        if let Some(id) = self.id {
            let _ = CORE.try_with(|c| {
                if let Ok(mut c) = c.try_borrow_mut() {
                    if let Some(c) = c.as_mut() {
                        c.timers.remove(&id);
                    }
                }
            });
        }
    }
}

pub fn sleep_ns(dur_ns: u64) -> SimSleep {
    SimSleep { dur_ns, id: None }
}
pub fn sleep_ms(ms: u64) -> SimSleep {
    sleep_ns(ms * 1_000_000)
}

#[derive(Clone)]
pub struct SimTimer;
impl Timer for SimTimer {
    fn delay(&mut self, duration: core::time::Duration) -> impl Future<Output = ()> + Send {
        let ns = duration.as_nanos().min(u64::MAX as u128) as u64;
        SimSleep { dur_ns: ns, id: None }
    }
}

pub struct SimTaskHandle;
impl TaskHandle for SimTaskHandle {
    fn join(&self) {}
}

#[derive(Clone)]
pub struct SimSpawner;
impl Spawner for SimSpawner {
    type TaskHandle = SimTaskHandle;
    fn spawn(&self, f: impl Future<Output = ()> + Send + 'static) -> SimTaskHandle {
        with_core(|c| {
            let class = if c.spawned_by_dds == 0 { Class::Worker } else { Class::Listener };
            c.spawned_by_dds += 1;
            c.spawn_local(class, Box::pin(f));
        });
        SimTaskHandle
    }
}

pub struct SimRuntime;
impl DdsRuntime for SimRuntime {
    type ClockHandle = SimClock;
    type TimerHandle = SimTimer;
    type SpawnerHandle = SimSpawner;
    fn timer(&self) -> SimTimer {
        SimTimer
    }
    fn clock(&self) -> SimClock {
        SimClock
    }
    fn spawner(&self) -> SimSpawner {
        SimSpawner
    }
}

pub fn spawn_client(fut: impl Future<Output = ()> + 'static) -> TaskId {
    with_core(|c| c.spawn_local(Class::Client, Box::pin(fut)))
}
pub fn task_done(id: TaskId) -> bool {
    with_core(|c| c.task_done(id))
}
pub fn cancel_task(id: TaskId) {
    let f = with_core(|c| c.cancel_task(id));
    drop(f);
}

/// A future that yields once (gives the scheduler a decision point).
pub struct YieldNow(bool);
impl Future for YieldNow {
    type Output = ();
    fn poll(mut self: Pin<&mut Self>, cx: &mut Context<'_>) -> Poll<()> {
        if self.0 {
            Poll::Ready(())
        } else {
            self.0 = true;
            cx.waker().wake_by_ref();
            Poll::Pending
        }
    }
}
pub fn yield_now() -> YieldNow {
    YieldNow(false)
}

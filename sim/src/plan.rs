//! The Plan: everything that determines a run. `plan_from_seed` (in scenarios) is pure; the
//! Plan is explicit JSON so it can be minimised and replayed.

use crate::core::{SchedPlan, TimePlan};
use crate::net::NetPlan;
use serde::{Deserialize, Serialize};

fn is_zero_i64(v: &i64) -> bool {
    *v == 0
}
fn is_false(b: &bool) -> bool {
    !*b
}
fn is_zero32(v: &i32) -> bool {
    *v == 0
}
fn is_zerou(v: &u64) -> bool {
    *v == 0
}

/// Compact QoS description (only the policies set here differ from the DDS defaults).
#[derive(Clone, Debug, Default, Serialize, Deserialize, PartialEq)]
pub struct Q {
    #[serde(default, skip_serializing_if = "Option::is_none")]
    pub reliable: Option<bool>,
    /// max_blocking_time in ms; -1 = infinite
    #[serde(default, skip_serializing_if = "Option::is_none")]
    pub mbt_ms: Option<i64>,
    /// 0 volatile, 1 transient-local, 2 transient, 3 persistent
    #[serde(default, skip_serializing_if = "Option::is_none")]
    pub durability: Option<u8>,
    /// 0 = KEEP_ALL, n = KEEP_LAST(n)
    #[serde(default, skip_serializing_if = "Option::is_none")]
    pub history: Option<u32>,
    #[serde(default, skip_serializing_if = "Option::is_none")]
    pub max_samples: Option<i32>,
    #[serde(default, skip_serializing_if = "Option::is_none")]
    pub max_instances: Option<i32>,
    #[serde(default, skip_serializing_if = "Option::is_none")]
    pub max_spi: Option<i32>,
    /// ns; None = infinite
    #[serde(default, skip_serializing_if = "Option::is_none")]
    pub deadline_ns: Option<u64>,
    #[serde(default, skip_serializing_if = "Option::is_none")]
    pub latency_ns: Option<u64>,
    /// 0 automatic, 1 manual by participant, 2 manual by topic
    #[serde(default, skip_serializing_if = "Option::is_none")]
    pub liveliness: Option<u8>,
    #[serde(default, skip_serializing_if = "Option::is_none")]
    pub lease_ns: Option<u64>,
    #[serde(default, skip_serializing_if = "is_false")]
    pub by_source: bool,
    #[serde(default, skip_serializing_if = "is_false")]
    pub exclusive: bool,
    #[serde(default, skip_serializing_if = "is_zero32")]
    pub strength: i32,
    #[serde(default, skip_serializing_if = "Option::is_none")]
    pub lifespan_ns: Option<u64>,
    #[serde(default, skip_serializing_if = "Option::is_none")]
    pub tbf_ns: Option<u64>,
    #[serde(default, skip_serializing_if = "Option::is_none")]
    pub autodispose: Option<bool>,
    #[serde(default, skip_serializing_if = "Option::is_none")]
    pub repr: Option<Vec<u16>>,
    #[serde(default, skip_serializing_if = "Vec::is_empty")]
    pub user_data: Vec<u8>,
    // publisher / subscriber level
    #[serde(default, skip_serializing_if = "Option::is_none")]
    pub partition: Option<Vec<String>>,
    /// (access scope 0 instance / 1 topic, coherent, ordered)
    #[serde(default, skip_serializing_if = "Option::is_none")]
    pub presentation: Option<(u8, bool, bool)>,
    #[serde(default, skip_serializing_if = "Option::is_none")]
    pub autoenable: Option<bool>,
    #[serde(default, skip_serializing_if = "Vec::is_empty")]
    pub group_data: Vec<u8>,
    #[serde(default, skip_serializing_if = "Vec::is_empty")]
    pub topic_data: Vec<u8>,
}

/// listener spec: which status kinds the listener mask enables (by StatusKind ordinal)
#[derive(Clone, Debug, Default, Serialize, Deserialize, PartialEq)]
pub struct L {
    pub mask: Vec<u8>,
    /// the mask is installed with a nil listener (NO_LISTENER): the entity consumes those statuses silently
    #[serde(default, skip_serializing_if = "is_false")]
    pub nil: bool,
}

#[derive(Clone, Debug, Serialize, Deserialize, PartialEq)]
#[serde(rename_all = "lowercase")]
pub enum Ty {
    Keyed,
    Plain,
    /// structurally unrelated type registered under another name
    Other,
}

#[derive(Clone, Debug, Serialize, Deserialize, PartialEq, Default)]
pub struct Masks {
    /// bit0 READ bit1 NOT_READ ; 0 = any
    #[serde(default, skip_serializing_if = "is_zero8")]
    pub ss: u8,
    /// bit0 NEW bit1 NOT_NEW
    #[serde(default, skip_serializing_if = "is_zero8")]
    pub vs: u8,
    /// bit0 ALIVE bit1 DISPOSED bit2 NO_WRITERS
    #[serde(default, skip_serializing_if = "is_zero8")]
    pub is: u8,
}
fn is_zero8(v: &u8) -> bool {
    *v == 0
}

#[derive(Clone, Debug, Serialize, Deserialize, PartialEq)]
#[serde(rename_all = "snake_case")]
pub enum ReadKind {
    Read,
    Take,
    ReadInstance,
    TakeInstance,
    ReadNextInstance,
    TakeNextInstance,
    ReadNextSample,
    TakeNextSample,
}

#[derive(Clone, Debug, Serialize, Deserialize, PartialEq)]
#[serde(rename_all = "snake_case")]
pub enum WKind {
    Write,
    Dispose,
    Unregister,
    Register,
    Lookup,
}

/// how the handle argument of a writer / reader call is chosen
#[derive(Clone, Debug, Serialize, Deserialize, PartialEq, Default)]
#[serde(rename_all = "snake_case")]
pub enum H {
    #[default]
    None,
    /// handle of the key (computed by registering/looking it up on that writer first)
    OfKey,
    /// handle of another key (wrong handle)
    OfOtherKey(u8),
    /// the previous handle returned by a *_next_instance call on this reader by this client
    Prev,
    /// handle nil
    Nil,
}

#[derive(Clone, Debug, Serialize, Deserialize, PartialEq)]
#[serde(tag = "t", rename_all = "snake_case")]
pub enum Op {
    // ---- entities
    CreateParticipant { p: u32, domain: i32, #[serde(default)] tag: String, #[serde(default)] announce_ms: u64, #[serde(default)] q: Q, #[serde(default, skip_serializing_if = "Option::is_none")] l: Option<L> },
    DeleteParticipant { p: u32 },
    CreateTopic { p: u32, id: u32, name: String, ty: Ty, #[serde(default)] q: Q, #[serde(default, skip_serializing_if = "Option::is_none")] l: Option<L> },
    CreateCft { p: u32, id: u32, name: String, related: u32, expr: String, params: Vec<String> },
    DeleteTopic { p: u32, id: u32 },
    CreatePublisher { p: u32, id: u32, #[serde(default)] q: Q, #[serde(default, skip_serializing_if = "Option::is_none")] l: Option<L> },
    CreateSubscriber { p: u32, id: u32, #[serde(default)] q: Q, #[serde(default, skip_serializing_if = "Option::is_none")] l: Option<L> },
    DeletePublisher { p: u32, id: u32 },
    DeleteSubscriber { p: u32, id: u32 },
    CreateWriter { id: u32, publisher: u32, topic: u32, #[serde(default)] q: Q, #[serde(default, skip_serializing_if = "Option::is_none")] l: Option<L> },
    CreateReader { id: u32, subscriber: u32, topic: u32, #[serde(default)] q: Q, #[serde(default, skip_serializing_if = "Option::is_none")] l: Option<L> },
    /// delete through publisher `via` (None = its own parent)
    DeleteWriter { id: u32, #[serde(default, skip_serializing_if = "Option::is_none")] via: Option<u32> },
    DeleteReader { id: u32, #[serde(default, skip_serializing_if = "Option::is_none")] via: Option<u32> },
    DeleteContained { kind: String, id: u32 },
    Enable { kind: String, id: u32 },
    SetQos { kind: String, id: u32, q: Q },
    GetQos { kind: String, id: u32 },
    GetHandle { kind: String, id: u32 },
    // ---- writer
    W { w: u32, k: WKind, key: u8, #[serde(default, skip_serializing_if = "is_zerou")] len: u64, #[serde(default)] x: i32, #[serde(default, skip_serializing_if = "String::is_empty")] name: String,
        /// source timestamp offset from "now" in ns (None: no timestamp variant)
        #[serde(default, skip_serializing_if = "Option::is_none")] ts: Option<i64>,
        #[serde(default)] h: H, uid: u32 },
    WaitAcks { w: u32, timeout_ms: u64, #[serde(default)] freeze_check: bool },
    // ---- reader
    R { r: u32, k: ReadKind, max: i32, #[serde(default)] m: Masks, #[serde(default)] h: H, #[serde(default)] key: u8 },
    WaitHistorical { r: u32, timeout_ms: u64, #[serde(default)] freeze_check: bool },
    /// repeatedly `take` everything every `period_us` until the phase ends (daemon clients)
    Drain { r: u32, period_us: u64, #[serde(default)] read_only: bool },
    // ---- statuses
    Status { kind: String, id: u32, what: String },
    Matched { kind: String, id: u32 },
    MatchedData { kind: String, id: u32, #[serde(default)] peer_kind: String, peer: u32 },
    Discovered { p: u32 },
    /// instance handle (GUID) of the participant itself
    Whoami { p: u32 },
    /// daemon: poll get_discovered_participants every `period_us`, logging every change of the set
    WatchDiscovered { p: u32, period_us: u64 },
    Ignore { p: u32, what: String, target_kind: String, target: u32 },
    // ---- conditions / waitsets
    SetEnabledStatuses { kind: String, id: u32, mask: Vec<u8> },
    Trigger { kind: String, id: u32 },
    WaitSet { conds: Vec<(String, u32)>, timeout_ms: u64 },
    SetListener { kind: String, id: u32, #[serde(default, skip_serializing_if = "Option::is_none")] l: Option<L> },
    // ---- control
    Sleep { us: u64 },
    /// sleep until the given simulated time (ms since start); no-op if already past
    SleepUntil { ms: u64 },
    Yield { n: u32 },
    /// poll until writer/reader `id` has `n` current matches (or timeout)
    WaitMatched { kind: String, id: u32, n: i32, timeout_ms: u64 },
    /// run until no non-SPDP datagram was sent for `quiet_ms`, at most `cap_ms`
    Quiesce { quiet_ms: u64, cap_ms: u64 },
    Heal,
    Crash { p: u32 },
    Mark { label: String },
    /// wait until reader `r` log holds `n` distinct samples or timeout (used as liveness probe)
    AwaitCount { r: u32, n: usize, timeout_ms: u64 },
    // ---- hostile / foreign traffic
    Inject { dst_p: u32, port: u8, generator: InjectGen, #[serde(default)] delay_us: u64 },
    ForeignSpdp { id: u32, dst_p: u32, domain: i32, #[serde(default, skip_serializing_if = "Option::is_none")] domain_in_msg: Option<i32>, #[serde(default, skip_serializing_if = "Option::is_none")] tag: Option<String>, lease_ms: u64, every_ms: u64, count: u32, #[serde(default, skip_serializing_if = "is_zero_i64")] sn0: i64 },
}

#[derive(Clone, Debug, Serialize, Deserialize, PartialEq)]
#[serde(tag = "g", rename_all = "snake_case")]
pub enum InjectGen {
    /// raw bytes (hex)
    Raw { hex: String },
    /// take the n-th captured datagram matching class mask, apply mutations
    Mutate {
        class: u32,
        nth: u32,
        muts: Vec<Mut>,
        /// replace the source GUID prefix by one that belongs to no participant (attacker that does not spoof)
        #[serde(default, skip_serializing_if = "is_false")]
        foreign: bool,
    },
    /// re-send the n-th captured DATA of the class as the *next* change of its writer (sequence number = highest seen
    /// + 1 + sn_off), with the payload mutated (offsets relative to the payload start): a reliable reader accepts it
    Fresh { class: u32, nth: u32, sn_off: i64, muts: Vec<Mut> },
    /// crafted well-formed message, see hostile.rs
    Craft { kind: String, spoof_p: Option<u32>, a: i64, b: i64, c: i64, d: i64 },
}

#[derive(Clone, Debug, Serialize, Deserialize, PartialEq)]
#[serde(tag = "m", rename_all = "snake_case")]
pub enum Mut {
    Flip { bit: u32 },
    Truncate { at: u32 },
    SetU8 { off: u32, v: u8 },
    SetU16 { sub: u32, off: u32, v: u16 },
    SetU32 { sub: u32, off: u32, v: u32 },
    SubLen { sub: u32, v: u16 },
    SubId { sub: u32, v: u8 },
    FlipEndian { sub: u32 },
}

#[derive(Clone, Debug, Serialize, Deserialize, PartialEq, Default)]
pub struct Script {
    #[serde(default, skip_serializing_if = "is_false")]
    pub daemon: bool,
    pub ops: Vec<Op>,
}

#[derive(Clone, Debug, Serialize, Deserialize, PartialEq, Default)]
pub struct Phase {
    #[serde(default, skip_serializing_if = "String::is_empty")]
    pub name: String,
    pub clients: Vec<Script>,
    /// phases the minimiser must not touch (setup / final observation)
    #[serde(default, skip_serializing_if = "is_false")]
    pub fixed: bool,
}

#[derive(Clone, Debug, Serialize, Deserialize, PartialEq)]
pub struct Plan {
    pub scenario: String,
    pub seed: u64,
    pub tier: String,
    pub time: TimePlan,
    pub sched: SchedPlan,
    pub net: NetPlan,
    pub max_steps: u64,
    pub max_sim_ms: u64,
    pub phases: Vec<Phase>,
    /// scenario-specific oracle parameters
    #[serde(default)]
    pub params: serde_json::Value,
}

impl Plan {
    pub fn hash(&self) -> u64 {
        let s = serde_json::to_string(self).unwrap();
        let mut h = crate::rng::Fnv::new();
        h.bytes(s.as_bytes());
        h.0
    }
    pub fn n_ops(&self) -> usize {
        self.phases.iter().map(|p| p.clients.iter().map(|c| c.ops.len()).sum::<usize>()).sum()
    }
}

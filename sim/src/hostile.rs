//! Hostile / foreign traffic generators (C06, C17, C31). Datagrams are built here byte by byte from
//! the RTPS 2.4 wire format, independently of dust-dds' own encoder.

use crate::core::{now_ns, sleep_ns, step};
use crate::hist::*;
use crate::net::{self, Port};
use crate::plan::*;
use crate::world::World;
use std::rc::Rc;

pub fn foreign_prefix(id: u32) -> [u8; 12] {
    let mut p = [0u8; 12];
    p[0] = 0xF0;
    p[1..5].copy_from_slice(&id.to_be_bytes());
    p[11] = 0x01;
    p
}

pub fn foreign_handle(id: u32) -> Hd {
    let mut h = [0u8; 16];
    h[..12].copy_from_slice(&foreign_prefix(id));
    h[12..16].copy_from_slice(&[0, 0, 1, 0xc1]);
    h
}

pub fn rtps_header(prefix: &[u8; 12]) -> Vec<u8> {
    let mut v = b"RTPS".to_vec();
    v.extend_from_slice(&[2, 4, 0x01, 0x14]);
    v.extend_from_slice(prefix);
    v
}

pub fn submessage(id: u8, flags: u8, body: &[u8]) -> Vec<u8> {
    let mut v = vec![id, flags];
    v.extend_from_slice(&(body.len() as u16).to_le_bytes());
    v.extend_from_slice(body);
    v
}

fn param(id: u16, value: &[u8]) -> Vec<u8> {
    let mut v = id.to_le_bytes().to_vec();
    let padded = value.len().div_ceil(4) * 4;
    v.extend_from_slice(&(padded as u16).to_le_bytes());
    v.extend_from_slice(value);
    v.resize(4 + padded, 0);
    v
}

fn locator(addr4: [u8; 4], port: u32) -> Vec<u8> {
    let mut v = 1i32.to_le_bytes().to_vec();
    v.extend_from_slice(&port.to_le_bytes());
    v.extend_from_slice(&[0; 12]);
    v.extend_from_slice(&addr4);
    v
}

/// SPDP announcement of a participant that does not exist in the simulation
pub fn spdp_datagram(id: u32, sn: i64, domain_in_msg: Option<i32>, tag: Option<&str>, lease_ns: u64) -> Vec<u8> {
    spdp_datagram_ex(id, sn, domain_in_msg, tag, lease_ns, 1, 7410, 0x0000_0003)
}

/// same with a chosen locator kind / port for all its locators and a chosen set of builtin endpoints (with the
/// discovery readers in the set, the receiving participant will send its endpoint announcements to those locators)
#[allow(clippy::too_many_arguments)]
pub fn spdp_datagram_ex(id: u32, sn: i64, domain_in_msg: Option<i32>, tag: Option<&str>, lease_ns: u64, loc_kind: i32, loc_port: u32, endpoint_set: u32) -> Vec<u8> {
    let locator = |addr4: [u8; 4], port: u32| -> Vec<u8> {
        let mut v = loc_kind.to_le_bytes().to_vec();
        v.extend_from_slice(&(if loc_port == 7410 { port } else { loc_port }).to_le_bytes());
        v.extend_from_slice(&[0; 12]);
        v.extend_from_slice(&addr4);
        v
    };
    let prefix = foreign_prefix(id);
    let mut pl: Vec<u8> = vec![0x00, 0x03, 0x00, 0x00]; // PL_CDR_LE
    pl.extend(param(0x0050, &foreign_handle(id)));
    if let Some(d) = domain_in_msg {
        pl.extend(param(0x000f, &d.to_le_bytes()));
    }
    if let Some(t) = tag {
        let mut s = ((t.len() + 1) as u32).to_le_bytes().to_vec();
        s.extend_from_slice(t.as_bytes());
        s.push(0);
        pl.extend(param(0x4014, &s));
    }
    pl.extend(param(0x0015, &[2, 4]));
    pl.extend(param(0x0016, &[0x01, 0x14]));
    pl.extend(param(0x0032, &locator([10, 9, 9, (id % 250) as u8 + 1], 7410)));
    pl.extend(param(0x0031, &locator([10, 9, 9, (id % 250) as u8 + 1], 7411)));
    pl.extend(param(0x0058, &endpoint_set.to_le_bytes()));
    let mut lease = ((lease_ns / 1_000_000_000) as i32).to_le_bytes().to_vec();
    lease.extend_from_slice(&((lease_ns % 1_000_000_000) as u32).to_le_bytes());
    pl.extend(param(0x0002, &lease));
    pl.extend(param(0x0001, &[]));
    let mut body = vec![0u8, 0, 16, 0]; // extraFlags, octetsToInlineQos
    body.extend_from_slice(&[0, 0, 0, 0]); // reader: unknown
    body.extend_from_slice(&[0x00, 0x01, 0x00, 0xc2]); // SPDP builtin participant writer
    body.extend_from_slice(&((sn >> 32) as i32).to_le_bytes());
    body.extend_from_slice(&(sn as u32).to_le_bytes());
    body.extend_from_slice(&pl);
    let mut d = rtps_header(&prefix);
    d.extend(submessage(0x15, 0x05, &body));
    d
}

#[allow(clippy::too_many_arguments)]
pub async fn foreign_spdp(w: &Rc<World>, id: u32, dst_p: u32, _domain: i32, domain_in_msg: Option<i32>, tag: Option<String>, lease_ms: u64, every_ms: u64, count: u32, sn0: i64) -> Res {
    let Some(node) = w.node_of(dst_p) else { return Res::Skipped("no participant") };
    let mut last = 0;
    for i in 0..count {
        let d = spdp_datagram(id, sn0 + i as i64 + 1, domain_in_msg, tag.as_deref(), lease_ms * 1_000_000);
        let lat = net::with_net(|n| n.plan.latency_us) * 1000;
        net::inject(node, Port::MetaMulti, d, lat);
        last = now_ns() + lat;
        let (s, t) = (step(), last);
        with_hist(|h| h.marks.push((format!("foreign-{id}-announce"), s, t)));
        if i + 1 < count {
            sleep_ns(every_ms * 1_000_000).await;
        }
    }
    Res::Int(last as i64)
}

fn unhex(s: &str) -> Vec<u8> {
    let b: Vec<u8> = s.bytes().filter(|c| c.is_ascii_hexdigit()).collect();
    b.chunks(2).filter(|c| c.len() == 2).map(|c| u8::from_str_radix(std::str::from_utf8(c).unwrap(), 16).unwrap_or(0)).collect()
}

pub fn inject_op(w: &Rc<World>, dst_p: u32, port: u8, generator: &InjectGen, delay_us: u64) -> Res {
    let Some(node) = w.node_of(dst_p) else { return Res::Skipped("no participant") };
    let port = match port {
        0 => Port::MetaUni,
        1 => Port::UserUni,
        _ => Port::MetaMulti,
    };
    let bytes: Option<Vec<u8>> = match generator {
        InjectGen::Raw { hex } => Some(unhex(hex)),
        InjectGen::Mutate { class, nth, muts, foreign } => crate::hostile2::mutate(node, *class, *nth, muts).map(|mut b| {
            if *foreign && b.len() >= 20 {
                b[8..20].copy_from_slice(&foreign_prefix(98));
                // the payload of captured discovery data carries the identity of a real participant too: an attacker
                // that does not forge must not claim it. All simulated participants share the first 8 prefix bytes.
                let own = w.st.borrow().participants.values().next().map(|x| crate::world::hd(x.0.get_instance_handle()));
                if let Some(own) = own {
                    let mut i = 20;
                    while i + 8 <= b.len() {
                        if b[i..i + 8] == own[..8] {
                            b[i] = 0xF0;
                            i += 8;
                        } else {
                            i += 1;
                        }
                    }
                }
            }
            b
        }),
        InjectGen::Fresh { class, nth, sn_off, muts } => crate::hostile2::fresh(*class, *nth, *sn_off, muts),
        InjectGen::Craft { kind, spoof_p, a, b, c, d } => crate::hostile2::craft(w, node, kind, *spoof_p, *a, *b, *c, *d),
    };
    match bytes {
        Some(b) => {
            let n = b.len();
            net::inject(node, port, b, delay_us * 1000);
            Res::Int(n as i64)
        }
        None => Res::Skipped("nothing to inject"),
    }
}

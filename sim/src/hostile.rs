//! Hostile / foreign traffic generators (C06, C17). Filled in with those scenarios.

use crate::hist::*;
use crate::plan::*;
use crate::world::World;
use std::rc::Rc;

pub fn foreign_handle(id: u32) -> Hd {
    let mut h = [0u8; 16];
    h[0] = 0xF0;
    h[1..5].copy_from_slice(&id.to_be_bytes());
    h[12..16].copy_from_slice(&[0, 0, 1, 0xc1]);
    h
}

pub fn inject_op(_w: &Rc<World>, _dst_p: u32, _port: u8, _gen: &InjectGen, _delay_us: u64) -> Res {
    Res::Skipped("inject not implemented")
}

#[allow(clippy::too_many_arguments)]
pub async fn foreign_spdp(_w: &Rc<World>, _id: u32, _dst_p: u32, _domain: i32, _domain_in_msg: Option<i32>, _tag: Option<String>, _lease_ms: u64, _every_ms: u64, _count: u32) -> Res {
    Res::Skipped("foreign spdp not implemented")
}

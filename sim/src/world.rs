//! The universal workload interpreter: executes a Plan's client scripts against the real
//! dust-dds async API and records the history.

use crate::core::{self, now_ns, sleep_ns, step, with_core};
use crate::hist::*;
use crate::net::{self, SimTransport};
use crate::plan::*;
use crate::types::*;
use dust_dds::dds_async::content_filtered_topic::ContentFilteredTopicAsync;
use dust_dds::dds_async::data_reader::DataReaderAsync;
use dust_dds::dds_async::data_writer::DataWriterAsync;
use dust_dds::dds_async::domain_participant::DomainParticipantAsync;
use dust_dds::dds_async::domain_participant_factory::DomainParticipantFactoryAsync;
use dust_dds::dds_async::publisher::PublisherAsync;
use dust_dds::dds_async::subscriber::SubscriberAsync;
use dust_dds::dds_async::topic::TopicAsync;
use dust_dds::dds_async::condition::StatusConditionAsync;
use dust_dds::dds_async::wait_set::{ConditionAsync, WaitSetAsync};
use dust_dds::dds_async::configuration::DustDdsConfigurationBuilder;
use dust_dds::infrastructure::error::DdsResult;
use dust_dds::infrastructure::instance::InstanceHandle;
use dust_dds::infrastructure::qos::QosKind;
use dust_dds::infrastructure::sample_info::*;
use dust_dds::infrastructure::status::*;
use dust_dds::infrastructure::time::Time;
use std::cell::RefCell;
use std::collections::BTreeMap;
use std::future::Future;
use std::pin::Pin;
use std::rc::Rc;
use std::task::{Context, Poll};

#[derive(Clone)]
pub enum WriterH {
    Keyed(DataWriterAsync<KeyedData>),
    Plain(DataWriterAsync<PlainData>),
    Other(DataWriterAsync<OtherData>),
}
#[derive(Clone)]
pub enum ReaderH {
    Keyed(DataReaderAsync<KeyedData>),
    Plain(DataReaderAsync<PlainData>),
    Other(DataReaderAsync<OtherData>),
}
#[derive(Clone)]
pub enum TopicH {
    Plain(TopicAsync, Ty),
    Cft(ContentFilteredTopicAsync, Ty),
}

#[derive(Clone)]
pub struct WriterInfo {
    pub h: WriterH,
    pub publisher: u32,
    pub topic: u32,
    pub p: u32,
    pub handle: Hd,
    pub deleted: bool,
}
#[derive(Clone)]
pub struct ReaderInfo {
    pub h: ReaderH,
    pub subscriber: u32,
    pub topic: u32,
    pub p: u32,
    pub handle: Hd,
    pub deleted: bool,
}

#[derive(Default)]
pub struct WorldState {
    pub participants: BTreeMap<u32, (DomainParticipantAsync, usize)>, // handle + net node
    pub topics: BTreeMap<(u32, u32), TopicH>,
    pub publishers: BTreeMap<u32, (PublisherAsync, u32)>,
    pub subscribers: BTreeMap<u32, (SubscriberAsync, u32)>,
    pub writers: BTreeMap<u32, WriterInfo>,
    pub readers: BTreeMap<u32, ReaderInfo>,
    pub prev_handle: BTreeMap<(usize, u32), Hd>,
    pub captured: Vec<Vec<u8>>,
}

pub struct World {
    /// set by the runner at the end of a phase: daemon loops finish their current call and return
    pub stop_daemons: std::cell::Cell<bool>,
    pub factory: DomainParticipantFactoryAsync<SimTransport>,
    pub st: RefCell<WorldState>,
}

pub fn hd(h: InstanceHandle) -> Hd {
    h.into()
}

/// race a future against a simulated timeout
pub struct Timeout<F> {
    fut: Pin<Box<F>>,
    sleep: core::SimSleep,
}
impl<F: Future> Future for Timeout<F> {
    type Output = Option<F::Output>;
    fn poll(mut self: Pin<&mut Self>, cx: &mut Context<'_>) -> Poll<Self::Output> {
        if let Poll::Ready(v) = self.fut.as_mut().poll(cx) {
            return Poll::Ready(Some(v));
        }
        if let Poll::Ready(()) = Pin::new(&mut self.sleep).poll(cx) {
            return Poll::Ready(None);
        }
        Poll::Pending
    }
}
pub fn timeout<F: Future>(ms: u64, f: F) -> Timeout<F> {
    Timeout { fut: Box::pin(f), sleep: sleep_ns(ms * 1_000_000) }
}

fn time_from_abs(ns: i64) -> Time {
    let ns = ns.max(0) as u64;
    Time::new((ns / 1_000_000_000) as i32, (ns % 1_000_000_000) as u32)
}
fn ss_mask(m: u8) -> Vec<SampleStateKind> {
    let mut v = vec![];
    if m == 0 || m & 1 != 0 {
        v.push(SampleStateKind::Read);
    }
    if m == 0 || m & 2 != 0 {
        v.push(SampleStateKind::NotRead);
    }
    v
}
fn vs_mask(m: u8) -> Vec<ViewStateKind> {
    let mut v = vec![];
    if m == 0 || m & 1 != 0 {
        v.push(ViewStateKind::New);
    }
    if m == 0 || m & 2 != 0 {
        v.push(ViewStateKind::NotNew);
    }
    v
}
fn is_mask(m: u8) -> Vec<InstanceStateKind> {
    let mut v = vec![];
    if m == 0 || m & 1 != 0 {
        v.push(InstanceStateKind::Alive);
    }
    if m == 0 || m & 2 != 0 {
        v.push(InstanceStateKind::NotAliveDisposed);
    }
    if m == 0 || m & 4 != 0 {
        v.push(InstanceStateKind::NotAliveNoWriters);
    }
    v
}

fn info_rec(si: &SampleInfo) -> SampleRec {
    SampleRec {
        valid: si.valid_data,
        key: 0,
        seq: 0,
        x: 0,
        name: String::new(),
        len: 0,
        body_ok: true,
        read: si.sample_state == SampleStateKind::Read,
        new: si.view_state == ViewStateKind::New,
        ist: match si.instance_state {
            InstanceStateKind::Alive => 0,
            InstanceStateKind::NotAliveDisposed => 1,
            InstanceStateKind::NotAliveNoWriters => 2,
        },
        dgc: si.disposed_generation_count,
        nwgc: si.no_writers_generation_count,
        srank: si.sample_rank,
        grank: si.generation_rank,
        agrank: si.absolute_generation_rank,
        ts: si.source_timestamp.map(|t| t.sec() as i64 * 1_000_000_000 + t.nanosec() as i64),
        ih: hd(si.instance_handle),
        ph: hd(si.publication_handle),
    }
}
fn keyed_rec(s: &Sample<KeyedData>) -> SampleRec {
    let mut r = info_rec(&s.sample_info);
    if let Some(d) = &s.data {
        r.key = d.key;
        r.seq = d.seq;
        r.x = d.x;
        r.name = d.name.clone();
        r.len = d.body.len();
        r.body_ok = body_ok(d.seq, &d.body);
    } else {
        r.key = r.ih[0];
    }
    r
}
fn plain_rec(s: &Sample<PlainData>) -> SampleRec {
    let mut r = info_rec(&s.sample_info);
    if let Some(d) = &s.data {
        r.seq = d.seq;
        r.x = d.x;
        r.len = d.body.len();
        r.body_ok = body_ok(d.seq, &d.body);
    }
    r
}

macro_rules! unit {
    ($e:expr) => {
        Res::Unit($e.map_err(E::from))
    };
}

impl World {
    pub fn new() -> Rc<World> {
        let factory = DomainParticipantFactoryAsync::new(core::SimRuntime, [0, 0, 0, 1], [10, 0, 0, 1], SimTransport, Default::default());
        Rc::new(World { stop_daemons: std::cell::Cell::new(false), factory, st: RefCell::new(WorldState::default()) })
    }

    fn writer(&self, id: u32) -> Option<WriterInfo> {
        self.st.borrow().writers.get(&id).cloned()
    }
    fn reader(&self, id: u32) -> Option<ReaderInfo> {
        self.st.borrow().readers.get(&id).cloned()
    }
    fn participant(&self, p: u32) -> Option<DomainParticipantAsync> {
        self.st.borrow().participants.get(&p).map(|x| x.0.clone())
    }
    pub fn node_of(&self, p: u32) -> Option<usize> {
        self.st.borrow().participants.get(&p).map(|x| x.1)
    }

    fn cond_of(&self, kind: &str, id: u32) -> Option<StatusConditionAsync> {
        let st = self.st.borrow();
        match kind {
            "writer" => st.writers.get(&id).map(|w| match &w.h {
                WriterH::Keyed(w) => w.get_statuscondition(),
                WriterH::Plain(w) => w.get_statuscondition(),
                WriterH::Other(w) => w.get_statuscondition(),
            }),
            "reader" => st.readers.get(&id).map(|r| match &r.h {
                ReaderH::Keyed(r) => r.get_statuscondition(),
                ReaderH::Plain(r) => r.get_statuscondition(),
                ReaderH::Other(r) => r.get_statuscondition(),
            }),
            "subscriber" => st.subscribers.get(&id).map(|s| s.0.get_statuscondition()),
            "topic" => st.topics.iter().find(|((_, t), _)| *t == id).and_then(|(_, t)| match t {
                TopicH::Plain(t, _) => Some(t.get_statuscondition()),
                _ => None,
            }),
            _ => None,
        }
    }

    pub async fn read_call(&self, cid: usize, r: u32, k: &ReadKind, max: i32, m: &Masks, h: &H, key: u8) -> Res {
        let Some(ri) = self.reader(r) else { return Res::Skipped("no reader") };
        let ss = ss_mask(m.ss);
        let vs = vs_mask(m.vs);
        let is = is_mask(m.is);
        let handle: InstanceHandle = match h {
            H::None | H::OfKey => InstanceHandle::new(handle_of_key(key)),
            H::OfOtherKey(k2) => InstanceHandle::new(handle_of_key(*k2)),
            H::Prev => InstanceHandle::new(self.st.borrow().prev_handle.get(&(cid, r)).copied().unwrap_or([0; 16])),
            H::Nil => InstanceHandle::new([0; 16]),
        };
        macro_rules! call {
            ($rd:expr, $conv:expr) => {{
                let rd = $rd;
                let res = match k {
                    ReadKind::Read => rd.read(max, &ss, &vs, &is).await,
                    ReadKind::Take => rd.take(max, &ss, &vs, &is).await,
                    ReadKind::ReadInstance => rd.read_instance(max, handle, &ss, &vs, &is).await,
                    ReadKind::TakeInstance => rd.take_instance(max, handle, &ss, &vs, &is).await,
                    ReadKind::ReadNextInstance => rd.read_next_instance(max, Some(handle).filter(|_| *h != H::Nil), &ss, &vs, &is).await,
                    ReadKind::TakeNextInstance => rd.take_next_instance(max, Some(handle).filter(|_| *h != H::Nil), &ss, &vs, &is).await,
                    ReadKind::ReadNextSample => rd.read_next_sample().await.map(|s| vec![s]),
                    ReadKind::TakeNextSample => rd.take_next_sample().await.map(|s| vec![s]),
                };
                res.map(|v| v.iter().map($conv).collect::<Vec<SampleRec>>()).map_err(E::from)
            }};
        }
        let out: Result<Vec<SampleRec>, E> = match &ri.h {
            ReaderH::Keyed(rd) => call!(rd, keyed_rec),
            ReaderH::Plain(rd) => call!(rd, plain_rec),
            ReaderH::Other(rd) => call!(rd, |s: &Sample<OtherData>| info_rec(&s.sample_info)),
        };
        if let Ok(v) = &out {
            let (s, t) = (step(), now_ns());
            if let Some(last) = v.last() {
                self.st.borrow_mut().prev_handle.insert((cid, r), last.ih);
            }
            with_hist(|h| {
                let log = h.reader_logs.entry(r).or_default();
                for x in v {
                    log.push((s, t, x.clone()));
                }
            });
        }
        Res::Samples(out)
    }

    /// read (not take) every sample currently in the reader + everything already logged
    async fn held_seqs(&self, r: u32) -> Vec<u32> {
        let mut seqs: Vec<u32> = with_hist(|h| h.reader_logs.get(&r).map(|l| l.iter().filter(|x| x.2.valid).map(|x| x.2.seq).collect()).unwrap_or_default());
        if let Some(ri) = self.reader(r) {
            if let ReaderH::Keyed(rd) = &ri.h {
                if let Ok(v) = rd.read(i32::MAX, ANY_SAMPLE_STATE, ANY_VIEW_STATE, ANY_INSTANCE_STATE).await {
                    for s in v {
                        if let Some(d) = s.data {
                            seqs.push(d.seq);
                        }
                    }
                }
            }
        }
        seqs.sort();
        seqs.dedup();
        seqs
    }

    pub async fn exec(self: &Rc<Self>, cid: usize, op: &Op) -> Res {
        match op {
            Op::CreateParticipant { p, domain, tag, announce_ms, q, l } => {
                {
                    let mut cfg = self.factory.get_mut_configuration().await;
                    let mut b = DustDdsConfigurationBuilder::new().domain_tag(tag.clone());
                    if *announce_ms > 0 {
                        b = b.participant_announcement_interval(std::time::Duration::from_millis(*announce_ms));
                    }
                    *cfg = b.build().unwrap();
                }
                let node = net::with_net(|n| n.nodes.len());
                let lst = l.as_ref().filter(|x| !x.nil).map(|_| RecL { level: "participant", owner: *p });
                let r = self.factory.create_participant(*domain, QosKind::Specific(participant_qos(q)), lst, &l_mask(l)).await;
                match r {
                    Ok(dp) => {
                        self.st.borrow_mut().participants.insert(*p, (dp, node));
                        Res::Unit(Ok(()))
                    }
                    Err(e) => Res::Unit(Err(e.into())),
                }
            }
            Op::DeleteParticipant { p } => {
                let Some(dp) = self.participant(*p) else { return Res::Skipped("no participant") };
                unit!(self.factory.delete_participant(&dp).await)
            }
            Op::CreateTopic { p, id, name, ty, q, l } => {
                let Some(dp) = self.participant(*p) else { return Res::Skipped("no participant") };
                let lst = l.as_ref().filter(|x| !x.nil).map(|_| RecL { level: "topic", owner: *id });
                let qos = QosKind::Specific(topic_qos(q));
                let m = l_mask(l);
                let r = match ty {
                    Ty::Keyed => dp.create_topic::<KeyedData>(name, "KeyedData", qos, lst, &m).await,
                    Ty::Plain => dp.create_topic::<PlainData>(name, "PlainData", qos, lst, &m).await,
                    Ty::Other => dp.create_topic::<OtherData>(name, "OtherData", qos, lst, &m).await,
                };
                match r {
                    Ok(t) => {
                        self.st.borrow_mut().topics.insert((*p, *id), TopicH::Plain(t, ty.clone()));
                        Res::Unit(Ok(()))
                    }
                    Err(e) => Res::Unit(Err(e.into())),
                }
            }
            Op::CreateCft { p, id, name, related, expr, params } => {
                let Some(dp) = self.participant(*p) else { return Res::Skipped("no participant") };
                let rel = self.st.borrow().topics.get(&(*p, *related)).cloned();
                let Some(TopicH::Plain(t, ty)) = rel else { return Res::Skipped("no related topic") };
                match dp.create_contentfilteredtopic(name, &t, expr.clone(), params.clone()).await {
                    Ok(c) => {
                        self.st.borrow_mut().topics.insert((*p, *id), TopicH::Cft(c, ty));
                        Res::Unit(Ok(()))
                    }
                    Err(e) => Res::Unit(Err(e.into())),
                }
            }
            Op::DeleteTopic { p, id } => {
                let Some(dp) = self.participant(*p) else { return Res::Skipped("no participant") };
                let t = self.st.borrow().topics.get(&(*p, *id)).cloned();
                match t {
                    Some(TopicH::Plain(t, _)) => unit!(dp.delete_topic(&t).await),
                    Some(TopicH::Cft(c, _)) => unit!(dp.delete_contentfilteredtopic(&c).await),
                    None => Res::Skipped("no topic"),
                }
            }
            Op::CreatePublisher { p, id, q, l } => {
                let Some(dp) = self.participant(*p) else { return Res::Skipped("no participant") };
                let lst = l.as_ref().filter(|x| !x.nil).map(|_| RecL { level: "publisher", owner: *id });
                match dp.create_publisher(QosKind::Specific(publisher_qos(q)), lst, &l_mask(l)).await {
                    Ok(x) => {
                        self.st.borrow_mut().publishers.insert(*id, (x, *p));
                        Res::Unit(Ok(()))
                    }
                    Err(e) => Res::Unit(Err(e.into())),
                }
            }
            Op::CreateSubscriber { p, id, q, l } => {
                let Some(dp) = self.participant(*p) else { return Res::Skipped("no participant") };
                let lst = l.as_ref().filter(|x| !x.nil).map(|_| RecL { level: "subscriber", owner: *id });
                match dp.create_subscriber(QosKind::Specific(subscriber_qos(q)), lst, &l_mask(l)).await {
                    Ok(x) => {
                        self.st.borrow_mut().subscribers.insert(*id, (x, *p));
                        Res::Unit(Ok(()))
                    }
                    Err(e) => Res::Unit(Err(e.into())),
                }
            }
            Op::DeletePublisher { p, id } => {
                let Some(dp) = self.participant(*p) else { return Res::Skipped("no participant") };
                let x = self.st.borrow().publishers.get(id).cloned();
                let Some((x, _)) = x else { return Res::Skipped("no publisher") };
                unit!(dp.delete_publisher(&x).await)
            }
            Op::DeleteSubscriber { p, id } => {
                let Some(dp) = self.participant(*p) else { return Res::Skipped("no participant") };
                let x = self.st.borrow().subscribers.get(id).cloned();
                let Some((x, _)) = x else { return Res::Skipped("no subscriber") };
                unit!(dp.delete_subscriber(&x).await)
            }
            Op::CreateWriter { id, publisher, topic, q, l } => {
                let pb = self.st.borrow().publishers.get(publisher).cloned();
                let Some((pb, p)) = pb else { return Res::Skipped("no publisher") };
                let t = self.st.borrow().topics.get(&(p, *topic)).cloned();
                let Some(TopicH::Plain(t, ty)) = t else { return Res::Skipped("no topic") };
                let lst = l.as_ref().filter(|x| !x.nil).map(|_| RecL { level: "writer", owner: *id });
                let qos = QosKind::Specific(writer_qos(q));
                let m = l_mask(l);
                let r: DdsResult<WriterH> = match ty {
                    Ty::Keyed => pb.create_datawriter::<KeyedData>(&t, qos, lst, &m).await.map(WriterH::Keyed),
                    Ty::Plain => pb.create_datawriter::<PlainData>(&t, qos, lst, &m).await.map(WriterH::Plain),
                    Ty::Other => pb.create_datawriter::<OtherData>(&t, qos, lst, &m).await.map(WriterH::Other),
                };
                match r {
                    Ok(h) => {
                        let handle = match &h {
                            WriterH::Keyed(w) => hd(w.get_instance_handle()),
                            WriterH::Plain(w) => hd(w.get_instance_handle()),
                            WriterH::Other(w) => hd(w.get_instance_handle()),
                        };
                        self.st.borrow_mut().writers.insert(*id, WriterInfo { h, publisher: *publisher, topic: *topic, p, handle, deleted: false });
                        Res::Handle(handle)
                    }
                    Err(e) => Res::Unit(Err(e.into())),
                }
            }
            Op::CreateReader { id, subscriber, topic, q, l } => {
                let sb = self.st.borrow().subscribers.get(subscriber).cloned();
                let Some((sb, p)) = sb else { return Res::Skipped("no subscriber") };
                let t = self.st.borrow().topics.get(&(p, *topic)).cloned();
                let Some(t) = t else { return Res::Skipped("no topic") };
                let lst = l.as_ref().filter(|x| !x.nil).map(|_| RecL { level: "reader", owner: *id });
                let qos = QosKind::Specific(reader_qos(q));
                let m = l_mask(l);
                let (td, ty): (&dyn dust_dds::dds_async::topic_description::TopicDescriptionAsync, Ty) = match &t {
                    TopicH::Plain(t, ty) => (t, ty.clone()),
                    TopicH::Cft(c, ty) => (c, ty.clone()),
                };
                let r: DdsResult<ReaderH> = match ty {
                    Ty::Keyed => sb.create_datareader::<KeyedData>(td, qos, lst, &m).await.map(ReaderH::Keyed),
                    Ty::Plain => sb.create_datareader::<PlainData>(td, qos, lst, &m).await.map(ReaderH::Plain),
                    Ty::Other => sb.create_datareader::<OtherData>(td, qos, lst, &m).await.map(ReaderH::Other),
                };
                match r {
                    Ok(h) => {
                        let handle = match &h {
                            ReaderH::Keyed(w) => hd(w.get_instance_handle()),
                            ReaderH::Plain(w) => hd(w.get_instance_handle()),
                            ReaderH::Other(w) => hd(w.get_instance_handle()),
                        };
                        self.st.borrow_mut().readers.insert(*id, ReaderInfo { h, subscriber: *subscriber, topic: *topic, p, handle, deleted: false });
                        Res::Handle(handle)
                    }
                    Err(e) => Res::Unit(Err(e.into())),
                }
            }
            Op::DeleteWriter { id, via } => {
                let Some(wi) = self.writer(*id) else { return Res::Skipped("no writer") };
                let pb = self.st.borrow().publishers.get(&via.unwrap_or(wi.publisher)).cloned();
                let Some((pb, _)) = pb else { return Res::Skipped("no publisher") };
                let r = match &wi.h {
                    WriterH::Keyed(w) => pb.delete_datawriter(w).await,
                    WriterH::Plain(w) => pb.delete_datawriter(w).await,
                    WriterH::Other(w) => pb.delete_datawriter(w).await,
                };
                if r.is_ok() {
                    if let Some(w) = self.st.borrow_mut().writers.get_mut(id) {
                        w.deleted = true;
                    }
                }
                unit!(r)
            }
            Op::DeleteReader { id, via } => {
                let Some(ri) = self.reader(*id) else { return Res::Skipped("no reader") };
                let sb = self.st.borrow().subscribers.get(&via.unwrap_or(ri.subscriber)).cloned();
                let Some((sb, _)) = sb else { return Res::Skipped("no subscriber") };
                let r = match &ri.h {
                    ReaderH::Keyed(w) => sb.delete_datareader(w).await,
                    ReaderH::Plain(w) => sb.delete_datareader(w).await,
                    ReaderH::Other(w) => sb.delete_datareader(w).await,
                };
                if r.is_ok() {
                    if let Some(w) = self.st.borrow_mut().readers.get_mut(id) {
                        w.deleted = true;
                    }
                }
                unit!(r)
            }
            Op::DeleteContained { kind, id } => match kind.as_str() {
                "participant" => {
                    let Some(dp) = self.participant(*id) else { return Res::Skipped("no participant") };
                    let r = dp.delete_contained_entities().await;
                    if r.is_ok() {
                        let mut st = self.st.borrow_mut();
                        st.readers.values_mut().filter(|x| x.p == *id).for_each(|x| x.deleted = true);
                        st.writers.values_mut().filter(|x| x.p == *id).for_each(|x| x.deleted = true);
                    }
                    unit!(r)
                }
                "publisher" => {
                    let x = self.st.borrow().publishers.get(id).cloned();
                    let Some((x, _)) = x else { return Res::Skipped("no publisher") };
                    let r = x.delete_contained_entities().await;
                    if r.is_ok() {
                        self.st.borrow_mut().writers.values_mut().filter(|x| x.publisher == *id).for_each(|x| x.deleted = true);
                    }
                    unit!(r)
                }
                "subscriber" => {
                    let x = self.st.borrow().subscribers.get(id).cloned();
                    let Some((x, _)) = x else { return Res::Skipped("no subscriber") };
                    let r = x.delete_contained_entities().await;
                    if r.is_ok() {
                        self.st.borrow_mut().readers.values_mut().filter(|x| x.subscriber == *id).for_each(|x| x.deleted = true);
                    }
                    unit!(r)
                }
                _ => Res::Skipped("bad kind"),
            },
            Op::Enable { kind, id } => match kind.as_str() {
                "participant" => {
                    let Some(dp) = self.participant(*id) else { return Res::Skipped("no participant") };
                    unit!(dp.enable().await)
                }
                "publisher" => {
                    let x = self.st.borrow().publishers.get(id).cloned();
                    let Some((x, _)) = x else { return Res::Skipped("no publisher") };
                    unit!(x.enable().await)
                }
                "subscriber" => {
                    let x = self.st.borrow().subscribers.get(id).cloned();
                    let Some((x, _)) = x else { return Res::Skipped("no subscriber") };
                    unit!(x.enable().await)
                }
                "writer" => {
                    let Some(wi) = self.writer(*id) else { return Res::Skipped("no writer") };
                    match &wi.h {
                        WriterH::Keyed(w) => unit!(w.enable().await),
                        WriterH::Plain(w) => unit!(w.enable().await),
                        WriterH::Other(w) => unit!(w.enable().await),
                    }
                }
                "reader" => {
                    let Some(ri) = self.reader(*id) else { return Res::Skipped("no reader") };
                    match &ri.h {
                        ReaderH::Keyed(w) => unit!(w.enable().await),
                        ReaderH::Plain(w) => unit!(w.enable().await),
                        ReaderH::Other(w) => unit!(w.enable().await),
                    }
                }
                _ => Res::Skipped("bad kind"),
            },
            Op::SetQos { kind, id, q } => match kind.as_str() {
                "participant" => {
                    let Some(dp) = self.participant(*id) else { return Res::Skipped("no participant") };
                    unit!(dp.set_qos(QosKind::Specific(participant_qos(q))).await)
                }
                "publisher" => {
                    let x = self.st.borrow().publishers.get(id).cloned();
                    let Some((x, _)) = x else { return Res::Skipped("no publisher") };
                    unit!(x.set_qos(QosKind::Specific(publisher_qos(q))).await)
                }
                "subscriber" => {
                    let x = self.st.borrow().subscribers.get(id).cloned();
                    let Some((x, _)) = x else { return Res::Skipped("no subscriber") };
                    unit!(x.set_qos(QosKind::Specific(subscriber_qos(q))).await)
                }
                "writer" => {
                    let Some(wi) = self.writer(*id) else { return Res::Skipped("no writer") };
                    let qos = QosKind::Specific(writer_qos(q));
                    match &wi.h {
                        WriterH::Keyed(w) => unit!(w.set_qos(qos).await),
                        WriterH::Plain(w) => unit!(w.set_qos(qos).await),
                        WriterH::Other(w) => unit!(w.set_qos(qos).await),
                    }
                }
                "reader" => {
                    let Some(ri) = self.reader(*id) else { return Res::Skipped("no reader") };
                    let qos = QosKind::Specific(reader_qos(q));
                    match &ri.h {
                        ReaderH::Keyed(w) => unit!(w.set_qos(qos).await),
                        ReaderH::Plain(w) => unit!(w.set_qos(qos).await),
                        ReaderH::Other(w) => unit!(w.set_qos(qos).await),
                    }
                }
                "topic" => {
                    let t = self.st.borrow().topics.iter().find(|((_, t), _)| t == id).map(|x| x.1.clone());
                    let Some(TopicH::Plain(t, _)) = t else { return Res::Skipped("no topic") };
                    unit!(t.set_qos(QosKind::Specific(topic_qos(q))).await)
                }
                // QosKind::Default: the entity takes the default QoS its factory currently holds
                "writer-default" => {
                    let Some(wi) = self.writer(*id) else { return Res::Skipped("no writer") };
                    match &wi.h {
                        WriterH::Keyed(w) => unit!(w.set_qos(QosKind::Default).await),
                        WriterH::Plain(w) => unit!(w.set_qos(QosKind::Default).await),
                        WriterH::Other(w) => unit!(w.set_qos(QosKind::Default).await),
                    }
                }
                "reader-default" => {
                    let Some(ri) = self.reader(*id) else { return Res::Skipped("no reader") };
                    match &ri.h {
                        ReaderH::Keyed(w) => unit!(w.set_qos(QosKind::Default).await),
                        ReaderH::Plain(w) => unit!(w.set_qos(QosKind::Default).await),
                        ReaderH::Other(w) => unit!(w.set_qos(QosKind::Default).await),
                    }
                }
                // the factory defaults themselves (id = publisher / subscriber)
                "publisher-default-writer-qos" => {
                    let x = self.st.borrow().publishers.get(id).cloned();
                    let Some((x, _)) = x else { return Res::Skipped("no publisher") };
                    unit!(x.set_default_datawriter_qos(QosKind::Specific(writer_qos(q))).await)
                }
                "subscriber-default-reader-qos" => {
                    let x = self.st.borrow().subscribers.get(id).cloned();
                    let Some((x, _)) = x else { return Res::Skipped("no subscriber") };
                    unit!(x.set_default_datareader_qos(QosKind::Specific(reader_qos(q))).await)
                }
                _ => Res::Skipped("bad kind"),
            },
            Op::GetQos { kind, id } => match kind.as_str() {
                "participant" => {
                    let Some(dp) = self.participant(*id) else { return Res::Skipped("no participant") };
                    Res::Qos(dp.get_qos().await.map(|q| participant_qos_back(&q)).map_err(E::from))
                }
                "publisher" => {
                    let x = self.st.borrow().publishers.get(id).cloned();
                    let Some((x, _)) = x else { return Res::Skipped("no publisher") };
                    Res::Qos(x.get_qos().await.map(|q| publisher_qos_back(&q)).map_err(E::from))
                }
                "subscriber" => {
                    let x = self.st.borrow().subscribers.get(id).cloned();
                    let Some((x, _)) = x else { return Res::Skipped("no subscriber") };
                    Res::Qos(x.get_qos().await.map(|q| subscriber_qos_back(&q)).map_err(E::from))
                }
                "writer" => {
                    let Some(wi) = self.writer(*id) else { return Res::Skipped("no writer") };
                    let r = match &wi.h {
                        WriterH::Keyed(w) => w.get_qos().await,
                        WriterH::Plain(w) => w.get_qos().await,
                        WriterH::Other(w) => w.get_qos().await,
                    };
                    Res::Qos(r.map(|q| writer_qos_back(&q)).map_err(E::from))
                }
                "reader" => {
                    let Some(ri) = self.reader(*id) else { return Res::Skipped("no reader") };
                    let r = match &ri.h {
                        ReaderH::Keyed(w) => w.get_qos().await,
                        ReaderH::Plain(w) => w.get_qos().await,
                        ReaderH::Other(w) => w.get_qos().await,
                    };
                    Res::Qos(r.map(|q| reader_qos_back(&q)).map_err(E::from))
                }
                "topic" => {
                    let t = self.st.borrow().topics.iter().find(|((_, t), _)| t == id).map(|x| x.1.clone());
                    let Some(TopicH::Plain(t, _)) = t else { return Res::Skipped("no topic") };
                    Res::Qos(t.get_qos().await.map(|q| topic_qos_back(&q)).map_err(E::from))
                }
                _ => Res::Skipped("bad kind"),
            },
            Op::GetHandle { kind, id } => {
                let st = self.st.borrow();
                let h = match kind.as_str() {
                    "participant" => st.participants.get(id).map(|x| hd(x.0.get_instance_handle())),
                    "publisher" => st.publishers.get(id).map(|x| hd(x.0.get_instance_handle())),
                    "subscriber" => st.subscribers.get(id).map(|x| hd(x.0.get_instance_handle())),
                    "writer" => st.writers.get(id).map(|x| x.handle),
                    "reader" => st.readers.get(id).map(|x| x.handle),
                    "topic" => st.topics.iter().find(|((_, t), _)| t == id).and_then(|x| match x.1 {
                        TopicH::Plain(t, _) => Some(hd(t.get_instance_handle())),
                        _ => None,
                    }),
                    _ => None,
                };
                match h {
                    Some(h) => Res::Handle(h),
                    None => Res::Skipped("no entity"),
                }
            }
            Op::W { w, k, key, len, x, name, ts, h, uid } => {
                let Some(wi) = self.writer(*w) else { return Res::Skipped("no writer") };
                let handle: Option<InstanceHandle> = match h {
                    H::None => None,
                    H::OfKey => Some(InstanceHandle::new(handle_of_key(*key))),
                    H::OfOtherKey(k2) => Some(InstanceHandle::new(handle_of_key(*k2))),
                    H::Nil | H::Prev => Some(InstanceHandle::new([0; 16])),
                };
                let tstamp = ts.map(|off| {
                    let abs = core::abs_now_ns() as i64 + off;
                    with_hist(|h| h.w_ts.insert(*uid, abs));
                    time_from_abs(abs)
                });
                match &wi.h {
                    WriterH::Keyed(wr) => {
                        let d = KeyedData { key: *key, seq: *uid, x: *x, name: name.clone(), body: body(*uid, *len as usize) };
                        match (k, tstamp) {
                            (WKind::Write, None) => unit!(wr.write(d, handle).await),
                            (WKind::Write, Some(t)) => unit!(wr.write_w_timestamp(d, handle, t).await),
                            (WKind::Dispose, None) => unit!(wr.dispose(d, handle).await),
                            (WKind::Dispose, Some(t)) => unit!(wr.dispose_w_timestamp(d, handle, t).await),
                            (WKind::Unregister, None) => unit!(wr.unregister_instance(d, handle).await),
                            (WKind::Unregister, Some(t)) => unit!(wr.unregister_instance_w_timestamp(d, handle, t).await),
                            (WKind::Register, None) => Res::OptHandle(wr.register_instance(d).await.map(|o| o.map(hd)).map_err(E::from)),
                            (WKind::Register, Some(t)) => Res::OptHandle(wr.register_instance_w_timestamp(d, t).await.map(|o| o.map(hd)).map_err(E::from)),
                            (WKind::Lookup, _) => Res::OptHandle(wr.lookup_instance(d).await.map(|o| o.map(hd)).map_err(E::from)),
                        }
                    }
                    WriterH::Plain(wr) => {
                        let d = PlainData { seq: *uid, x: *x, body: body(*uid, *len as usize) };
                        match (k, tstamp) {
                            (WKind::Write, None) => unit!(wr.write(d, handle).await),
                            (WKind::Write, Some(t)) => unit!(wr.write_w_timestamp(d, handle, t).await),
                            (WKind::Dispose, None) => unit!(wr.dispose(d, handle).await),
                            (WKind::Dispose, Some(t)) => unit!(wr.dispose_w_timestamp(d, handle, t).await),
                            (WKind::Unregister, None) => unit!(wr.unregister_instance(d, handle).await),
                            (WKind::Unregister, Some(t)) => unit!(wr.unregister_instance_w_timestamp(d, handle, t).await),
                            (WKind::Register, None) => Res::OptHandle(wr.register_instance(d).await.map(|o| o.map(hd)).map_err(E::from)),
                            (WKind::Register, Some(t)) => Res::OptHandle(wr.register_instance_w_timestamp(d, t).await.map(|o| o.map(hd)).map_err(E::from)),
                            (WKind::Lookup, _) => Res::OptHandle(wr.lookup_instance(d).await.map(|o| o.map(hd)).map_err(E::from)),
                        }
                    }
                    WriterH::Other(wr) => {
                        let d = OtherData { id: *key as u64, text: name.clone(), z: *x as f64 };
                        unit!(wr.write(d, handle).await)
                    }
                }
            }
            Op::WaitAcks { w, timeout_ms, freeze_check } => {
                let Some(wi) = self.writer(*w) else { return Res::Skipped("no writer") };
                let WriterH::Keyed(wr) = &wi.h else { return Res::Skipped("not keyed") };
                let r = timeout(*timeout_ms, wr.wait_for_acknowledgments()).await;
                let res: Result<(), E> = match r {
                    None => Err(E::SimTimeout),
                    Some(r) => r.map_err(E::from),
                };
                if res.is_ok() && *freeze_check {
                    net::freeze(true);
                    let matched: Vec<Hd> = wr.get_matched_subscriptions().await.map(|v| v.into_iter().map(hd).collect()).unwrap_or_default();
                    let ids: Vec<u32> = self.st.borrow().readers.iter().filter(|(_, r)| r.topic == wi.topic && !r.deleted).map(|(i, _)| *i).collect();
                    let mut held = vec![];
                    for r in ids {
                        held.push((r, self.held_seqs(r).await));
                    }
                    net::freeze(false);
                    Res::AckCheck { res, matched, held }
                } else {
                    Res::AckCheck { res, matched: vec![], held: vec![] }
                }
            }
            Op::WaitHistorical { r, timeout_ms, freeze_check } => {
                let Some(ri) = self.reader(*r) else { return Res::Skipped("no reader") };
                let ReaderH::Keyed(rd) = &ri.h else { return Res::Skipped("not keyed") };
                let res: Result<(), E> = match timeout(*timeout_ms, rd.wait_for_historical_data()).await {
                    None => Err(E::SimTimeout),
                    Some(r) => r.map_err(E::from),
                };
                if res.is_ok() && *freeze_check {
                    net::freeze(true);
                    let matched: Vec<Hd> = rd.get_matched_publications().await.map(|v| v.into_iter().map(hd).collect()).unwrap_or_default();
                    let held = vec![(*r, self.held_seqs(*r).await)];
                    net::freeze(false);
                    Res::AckCheck { res, matched, held }
                } else {
                    Res::AckCheck { res, matched: vec![], held: vec![] }
                }
            }
            Op::R { r, k, max, m, h, key } => self.read_call(cid, *r, k, *max, m, h, *key).await,
            Op::Drain { r, period_us, read_only } => {
                let k = if *read_only { ReadKind::Read } else { ReadKind::Take };
                let m = if *read_only { Masks { ss: 2, vs: 0, is: 0 } } else { Masks::default() };
                loop {
                    let _ = self.read_call(cid, *r, &k, i32::MAX, &m, &H::None, 0).await;
                    if self.stop_daemons.get() {
                        return Res::Unit(Ok(()));
                    }
                    sleep_ns(*period_us * 1000).await;
                    if self.stop_daemons.get() {
                        return Res::Unit(Ok(()));
                    }
                }
            }
            Op::Status { kind, id, what } => self.status(kind, *id, what).await,
            Op::Matched { kind, id } => match kind.as_str() {
                "writer" => {
                    let Some(wi) = self.writer(*id) else { return Res::Skipped("no writer") };
                    let r = match &wi.h {
                        WriterH::Keyed(w) => w.get_matched_subscriptions().await,
                        WriterH::Plain(w) => w.get_matched_subscriptions().await,
                        WriterH::Other(w) => w.get_matched_subscriptions().await,
                    };
                    Res::Handles(r.map(|v| v.into_iter().map(hd).collect()).map_err(E::from))
                }
                _ => {
                    let Some(ri) = self.reader(*id) else { return Res::Skipped("no reader") };
                    let r = match &ri.h {
                        ReaderH::Keyed(w) => w.get_matched_publications().await,
                        ReaderH::Plain(w) => w.get_matched_publications().await,
                        ReaderH::Other(w) => w.get_matched_publications().await,
                    };
                    Res::Handles(r.map(|v| v.into_iter().map(hd).collect()).map_err(E::from))
                }
            },
            Op::MatchedData { kind, id, peer_kind: _, peer } => crate::ops2::matched_data(self, kind, *id, *peer).await,
            Op::Discovered { p } => {
                let Some(dp) = self.participant(*p) else { return Res::Skipped("no participant") };
                Res::Handles(dp.get_discovered_participants().await.map(|v| v.into_iter().map(hd).collect()).map_err(E::from))
            }
            Op::Whoami { p } => {
                let Some(dp) = self.participant(*p) else { return Res::Skipped("no participant") };
                Res::Handle(hd(dp.get_instance_handle()))
            }
            Op::WatchDiscovered { p, period_us } => {
                let Some(dp) = self.participant(*p) else { return Res::Skipped("no participant") };
                let mut last: Option<Vec<Hd>> = None;
                loop {
                    if let Ok(v) = dp.get_discovered_participants().await {
                        let mut set: Vec<Hd> = v.into_iter().map(hd).collect();
                        set.sort();
                        let (s, t) = (step(), now_ns());
                        with_hist(|h| {
                            h.discovery_polls.entry(*p).or_default().push(t);
                            if last.as_ref() != Some(&set) {
                                h.discovery_log.push((s, t, *p, set.clone()));
                            }
                        });
                        last = Some(set);
                    }
                    if self.stop_daemons.get() {
                        return Res::Unit(Ok(()));
                    }
                    sleep_ns(*period_us * 1000).await;
                    if self.stop_daemons.get() {
                        return Res::Unit(Ok(()));
                    }
                }
            }
            Op::Ignore { p, what, target_kind, target } => crate::ops2::ignore(self, *p, what, target_kind, *target).await,
            Op::SetEnabledStatuses { kind, id, mask } => {
                let Some(c) = self.cond_of(kind, *id) else { return Res::Skipped("no entity") };
                unit!(c.set_enabled_statuses(&mask_of(mask)).await)
            }
            Op::Trigger { kind, id } => {
                let Some(c) = self.cond_of(kind, *id) else { return Res::Skipped("no entity") };
                Res::Bool(c.get_trigger_value().await.map_err(E::from))
            }
            Op::WaitSet { conds, timeout_ms } => {
                let mut ws = WaitSetAsync::new();
                for (k, i) in conds {
                    let Some(c) = self.cond_of(k, *i) else { return Res::Skipped("no entity") };
                    let _ = ws.attach_condition(ConditionAsync::StatusCondition(c)).await;
                }
                match timeout(*timeout_ms, ws.wait()).await {
                    None => Res::Conds(Err(E::SimTimeout)),
                    Some(Err(e)) => Res::Conds(Err(e.into())),
                    // conditions cannot be compared for identity through the public API: record how many
                    Some(Ok(v)) => Res::Conds(Ok((0..v.len()).collect())),
                }
            }
            Op::SetListener { kind, id, l } => crate::ops2::set_listener(self, kind, *id, l).await,
            Op::Sleep { us } => {
                sleep_ns(*us * 1000).await;
                Res::Unit(Ok(()))
            }
            Op::SleepUntil { ms } => {
                let now = now_ns();
                if ms * 1_000_000 > now {
                    sleep_ns(ms * 1_000_000 - now).await;
                }
                Res::Unit(Ok(()))
            }
            Op::Yield { n } => {
                for _ in 0..*n {
                    core::yield_now().await;
                }
                Res::Unit(Ok(()))
            }
            Op::WaitMatched { kind, id, n, timeout_ms } => {
                let t0 = now_ns();
                loop {
                    let cur = match kind.as_str() {
                        "writer" => {
                            let Some(wi) = self.writer(*id) else { return Res::Skipped("no writer") };
                            match &wi.h {
                                WriterH::Keyed(w) => w.get_matched_subscriptions().await.map(|v| v.len()),
                                WriterH::Plain(w) => w.get_matched_subscriptions().await.map(|v| v.len()),
                                WriterH::Other(w) => w.get_matched_subscriptions().await.map(|v| v.len()),
                            }
                        }
                        _ => {
                            let Some(ri) = self.reader(*id) else { return Res::Skipped("no reader") };
                            match &ri.h {
                                ReaderH::Keyed(w) => w.get_matched_publications().await.map(|v| v.len()),
                                ReaderH::Plain(w) => w.get_matched_publications().await.map(|v| v.len()),
                                ReaderH::Other(w) => w.get_matched_publications().await.map(|v| v.len()),
                            }
                        }
                    };
                    match cur {
                        Ok(c) if c as i32 >= *n => return Res::Int(c as i64),
                        Err(e) => return Res::Unit(Err(e.into())),
                        _ => {}
                    }
                    if now_ns() - t0 > timeout_ms * 1_000_000 {
                        return Res::Unit(Err(E::SimTimeout));
                    }
                    sleep_ns(5_000_000).await;
                }
            }
            Op::Quiesce { quiet_ms, cap_ms } => {
                let t0 = now_ns();
                loop {
                    sleep_ns(50_000_000).await;
                    let now = now_ns();
                    let last = net::last_send_of(crate::wire::C_ALL & !crate::wire::C_SPDP).unwrap_or(0);
                    if now.saturating_sub(last) >= quiet_ms * 1_000_000 {
                        return Res::Int(((now - t0) / 1_000_000) as i64);
                    }
                    if now - t0 > cap_ms * 1_000_000 {
                        return Res::Unit(Err(E::SimTimeout));
                    }
                }
            }
            Op::Heal => {
                net::heal();
                Res::Unit(Ok(()))
            }
            Op::Crash { p } => {
                if let Some(n) = self.node_of(*p) {
                    net::crash(n);
                }
                Res::Unit(Ok(()))
            }
            Op::Mark { label } => {
                let (s, t) = (step(), now_ns());
                with_hist(|h| h.marks.push((label.clone(), s, t)));
                Res::Unit(Ok(()))
            }
            Op::AwaitCount { r, n, timeout_ms } => {
                let t0 = now_ns();
                loop {
                    let c = with_hist(|h| {
                        h.reader_logs.get(r).map(|l| {
                            let mut s: Vec<u32> = l.iter().filter(|x| x.2.valid).map(|x| x.2.seq).collect();
                            s.sort();
                            s.dedup();
                            s.len()
                        })
                    })
                    .unwrap_or(0);
                    if c >= *n {
                        return Res::Int(c as i64);
                    }
                    if now_ns() - t0 > timeout_ms * 1_000_000 {
                        return Res::Unit(Err(E::SimTimeout));
                    }
                    sleep_ns(10_000_000).await;
                }
            }
            Op::Inject { dst_p, port, generator, delay_us } => crate::hostile::inject_op(self, *dst_p, *port, generator, *delay_us),
            Op::ForeignSpdp { id, dst_p, domain, domain_in_msg, tag, lease_ms, every_ms, count, sn0 } => {
                crate::hostile::foreign_spdp(self, *id, *dst_p, *domain, *domain_in_msg, tag.clone(), *lease_ms, *every_ms, *count, *sn0).await
            }
        }
    }

    async fn status(&self, kind: &str, id: u32, what: &str) -> Res {
        fn ms<T>(r: DdsResult<T>, f: impl FnOnce(T) -> MatchedSt) -> Res {
            Res::Matched(r.map(f).map_err(E::from))
        }
        match kind {
            "writer" => {
                let Some(wi) = self.writer(id) else { return Res::Skipped("no writer") };
                macro_rules! wst {
                    ($w:expr) => {
                        match what {
                            "matched" => ms($w.get_publication_matched_status().await, |s| MatchedSt { total: s.total_count, total_change: s.total_count_change, current: s.current_count, current_change: s.current_count_change, last: hd(s.last_subscription_handle) }),
                            "incompatible" => Res::Incompat($w.get_offered_incompatible_qos_status().await.map(|s| IncompatSt { total: s.total_count, change: s.total_count_change, last_policy: s.last_policy_id, policies: s.policies.iter().map(|p| (p.policy_id, p.count)).collect() }).map_err(E::from)),
                            "deadline" => Res::Count($w.get_offered_deadline_missed_status().await.map(|s| CountSt { total: s.total_count, change: s.total_count_change, last: hd(s.last_instance_handle), reason: 0 }).map_err(E::from)),
                            _ => Res::Skipped("bad status"),
                        }
                    };
                }
                match &wi.h {
                    WriterH::Keyed(w) => wst!(w),
                    WriterH::Plain(w) => wst!(w),
                    WriterH::Other(w) => wst!(w),
                }
            }
            "reader" => {
                let Some(ri) = self.reader(id) else { return Res::Skipped("no reader") };
                macro_rules! rst {
                    ($r:expr) => {
                        match what {
                            "matched" => ms($r.get_subscription_matched_status().await, |s| MatchedSt { total: s.total_count, total_change: s.total_count_change, current: s.current_count, current_change: s.current_count_change, last: hd(s.last_publication_handle) }),
                            "incompatible" => Res::Incompat($r.get_requested_incompatible_qos_status().await.map(|s| IncompatSt { total: s.total_count, change: s.total_count_change, last_policy: s.last_policy_id, policies: s.policies.iter().map(|p| (p.policy_id, p.count)).collect() }).map_err(E::from)),
                            "deadline" => Res::Count($r.get_requested_deadline_missed_status().await.map(|s| CountSt { total: s.total_count, change: s.total_count_change, last: hd(s.last_instance_handle), reason: 0 }).map_err(E::from)),
                            "rejected" => Res::Count($r.get_sample_rejected_status().await.map(|s| CountSt { total: s.total_count, change: s.total_count_change, last: hd(s.last_instance_handle), reason: match s.last_reason {
                                SampleRejectedStatusKind::NotRejected => 0,
                                SampleRejectedStatusKind::RejectedByInstancesLimit => 1,
                                SampleRejectedStatusKind::RejectedBySamplesLimit => 2,
                                SampleRejectedStatusKind::RejectedBySamplesPerInstanceLimit => 3,
                            } }).map_err(E::from)),
                            "lost" => Res::Count($r.get_sample_lost_status().await.map(|s| CountSt { total: s.total_count, change: s.total_count_change, last: [0; 16], reason: 0 }).map_err(E::from)),
                            _ => Res::Skipped("bad status"),
                        }
                    };
                }
                match &ri.h {
                    ReaderH::Keyed(r) => rst!(r),
                    ReaderH::Plain(r) => rst!(r),
                    ReaderH::Other(r) => rst!(r),
                }
            }
            "topic" => {
                let t = self.st.borrow().topics.iter().find(|((_, t), _)| *t == id).map(|x| x.1.clone());
                let Some(TopicH::Plain(t, _)) = t else { return Res::Skipped("no topic") };
                Res::Count(t.get_inconsistent_topic_status().await.map(|s| CountSt { total: s.total_count, change: s.total_count_change, last: [0; 16], reason: 0 }).map_err(E::from))
            }
            _ => Res::Skipped("bad kind"),
        }
    }
}

/// run one client script, recording every operation
pub async fn run_script(w: Rc<World>, phase: usize, cid: usize, ops: Vec<Op>) {
    for (i, op) in ops.iter().enumerate() {
        let (s, t) = with_core(|c| (c.step, c.now));
        let ri = with_hist(|h| {
            h.recs.push(Rec { phase, client: cid, idx: i, op: op.clone(), inv_step: s, inv_t: t, ret_step: u64::MAX, ret_t: u64::MAX, res: Res::Pending });
            h.recs.len() - 1
        });
        let res = match (CatchUnwind { fut: Box::pin(w.exec(cid, op)) }).await {
            Ok(r) => r,
            Err(msg) => Res::Panic(msg),
        };
        let (s, t) = with_core(|c| (c.step, c.now));
        with_hist(|h| {
            h.recs[ri].ret_step = s;
            h.recs[ri].ret_t = t;
            h.recs[ri].res = res;
        });
    }
}

/// poll a future under catch_unwind so that a panicking API call (e.g. `todo!()`) becomes a result
pub struct CatchUnwind<'a, T> {
    fut: Pin<Box<dyn Future<Output = T> + 'a>>,
}
impl<T> Future for CatchUnwind<'_, T> {
    type Output = Result<T, String>;
    fn poll(mut self: Pin<&mut Self>, cx: &mut Context<'_>) -> Poll<Self::Output> {
        let fut = &mut self.fut;
        match std::panic::catch_unwind(std::panic::AssertUnwindSafe(|| fut.as_mut().poll(cx))) {
            Ok(Poll::Ready(v)) => Poll::Ready(Ok(v)),
            Ok(Poll::Pending) => Poll::Pending,
            Err(_) => Poll::Ready(Err(core::LAST_PANIC.with(|p| p.borrow_mut().take()).unwrap_or_default())),
        }
    }
}

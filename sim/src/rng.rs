//! The only source of randomness in a simulated run: SplitMix64 streams derived from one seed
//! by fixed labels, so adding a draw in one stream never shifts another.

#[derive(Clone, Debug)]
pub struct Rng {
    s: u64,
}

pub fn mix(mut z: u64) -> u64 {
    z = z.wrapping_add(0x9E37_79B9_7F4A_7C15);
    z = (z ^ (z >> 30)).wrapping_mul(0xBF58_476D_1CE4_E5B9);
    z = (z ^ (z >> 27)).wrapping_mul(0x94D0_49BB_1331_11EB);
    z ^ (z >> 31)
}

pub fn label_hash(label: &str) -> u64 {
    let mut h: u64 = 0xcbf2_9ce4_8422_2325;
    for b in label.bytes() {
        h ^= b as u64;
        h = h.wrapping_mul(0x1000_0000_01b3);
    }
    h
}

impl Rng {
    pub fn new(seed: u64) -> Self {
        Rng { s: mix(seed ^ 0xD1B5_4A32_D192_ED03) }
    }
    /// Independent sub-stream.
    pub fn derive(seed: u64, label: &str) -> Self {
        Rng::new(mix(seed) ^ label_hash(label))
    }
    pub fn sub(&self, label: &str) -> Self {
        Rng::new(mix(self.s) ^ label_hash(label))
    }
    pub fn next_u64(&mut self) -> u64 {
        self.s = self.s.wrapping_add(0x9E37_79B9_7F4A_7C15);
        let mut z = self.s;
        z = (z ^ (z >> 30)).wrapping_mul(0xBF58_476D_1CE4_E5B9);
        z = (z ^ (z >> 27)).wrapping_mul(0x94D0_49BB_1331_11EB);
        z ^ (z >> 31)
    }
    /// uniform in [0, n)
    pub fn below(&mut self, n: u64) -> u64 {
        if n == 0 {
            return 0;
        }
        // multiply-shift; bias negligible for our n
        ((self.next_u64() as u128 * n as u128) >> 64) as u64
    }
    /// uniform in [lo, hi] inclusive
    pub fn range(&mut self, lo: u64, hi: u64) -> u64 {
        if hi <= lo {
            return lo;
        }
        lo + self.below(hi - lo + 1)
    }
    pub fn usize(&mut self, lo: usize, hi: usize) -> usize {
        self.range(lo as u64, hi as u64) as usize
    }
    pub fn f64(&mut self) -> f64 {
        (self.next_u64() >> 11) as f64 / (1u64 << 53) as f64
    }
    pub fn chance(&mut self, p: f64) -> bool {
        self.f64() < p
    }
    pub fn pick<'a, T>(&mut self, xs: &'a [T]) -> &'a T {
        &xs[self.below(xs.len() as u64) as usize]
    }
    pub fn shuffle<T>(&mut self, xs: &mut [T]) {
        for i in (1..xs.len()).rev() {
            let j = self.below(i as u64 + 1) as usize;
            xs.swap(i, j);
        }
    }
    /// weighted pick, returns index
    pub fn weighted(&mut self, ws: &[u32]) -> usize {
        let total: u64 = ws.iter().map(|w| *w as u64).sum();
        let mut x = self.below(total.max(1));
        for (i, w) in ws.iter().enumerate() {
            if x < *w as u64 {
                return i;
            }
            x -= *w as u64;
        }
        ws.len() - 1
    }
}

/// stateless hash-derived decision: f(seed, ordinal, lane) in [0,1)
pub fn unit(seed: u64, ordinal: u64, lane: u64) -> f64 {
    let h = mix(mix(seed ^ mix(ordinal)) ^ lane.wrapping_mul(0xA24B_AED4_963E_E407));
    (h >> 11) as f64 / (1u64 << 53) as f64
}

pub struct Fnv(pub u64);
impl Fnv {
    pub fn new() -> Self {
        Fnv(0xcbf2_9ce4_8422_2325)
    }
    pub fn u64(&mut self, v: u64) {
        for b in v.to_le_bytes() {
            self.0 ^= b as u64;
            self.0 = self.0.wrapping_mul(0x1000_0000_01b3);
        }
    }
    pub fn bytes(&mut self, v: &[u8]) {
        for b in v {
            self.0 ^= *b as u64;
            self.0 = self.0.wrapping_mul(0x1000_0000_01b3);
        }
    }
}

//! Batch driver: every run in a fresh (forked) address space, 16-way parallel; minimisation,
//! replay files, known findings, evidence.

use crate::driver::{arg, flag, run_plan, RunResult};
use crate::plan::{Op, Plan};
use crate::scen::{self, ScenarioDef, Violation};
use serde::{Deserialize, Serialize};
use std::collections::{BTreeMap, BTreeSet};
use std::io::{Read, Write};
use std::os::fd::FromRawFd;
use std::time::Instant;

pub const VERIF_DIR: &str = "/verif";

/// run `f` in a forked child and return what it wrote (None if it died)
fn in_child(f: impl FnOnce() -> Vec<u8>, watchdog_s: u32, mem_limit: u64) -> Result<Vec<u8>, String> {
    let mut fds = [0i32; 2];
    unsafe {
        if libc::pipe(fds.as_mut_ptr()) != 0 {
            return Err("pipe failed".into());
        }
        let pid = libc::fork();
        if pid < 0 {
            return Err("fork failed".into());
        }
        if pid == 0 {
            libc::close(fds[0]);
            if watchdog_s > 0 {
                libc::alarm(watchdog_s.max(120));
                // CPU seconds rather than wall clock: robust against a loaded machine
                let rl = libc::rlimit { rlim_cur: watchdog_s as u64, rlim_max: watchdog_s as u64 + 5 };
                libc::setrlimit(libc::RLIMIT_CPU, &rl);
            }
            if mem_limit > 0 {
                let rl = libc::rlimit { rlim_cur: mem_limit, rlim_max: mem_limit };
                libc::setrlimit(libc::RLIMIT_AS, &rl);
            }
            let out = f();
            let mut file = std::fs::File::from_raw_fd(fds[1]);
            let _ = file.write_all(&out);
            let _ = file.flush();
            libc::_exit(0);
        }
        libc::close(fds[1]);
        let mut file = std::fs::File::from_raw_fd(fds[0]);
        let mut buf = vec![];
        let _ = file.read_to_end(&mut buf);
        drop(file);
        let mut status = 0;
        libc::waitpid(pid, &mut status, 0);
        if libc::WIFSIGNALED(status) {
            return Err(format!("killed by signal {}", libc::WTERMSIG(status)));
        }
        if libc::WIFEXITED(status) && libc::WEXITSTATUS(status) != 0 {
            return Err(format!("exit status {}", libc::WEXITSTATUS(status)));
        }
        Ok(buf)
    }
}

pub fn run_forked(plan: &Plan, want_fired: bool) -> RunResult {
    let p = plan.clone();
    // hostile-input scenarios: a hang or a giant allocation is itself the violation, so detect it quickly
    let hostile = plan.scenario == "hostile-datagrams";
    match in_child(
        move || {
            let (r, _) = run_plan(&p, false, want_fired);
            serde_json::to_vec(&r).unwrap()
        },
        if hostile { 30 } else { 120 },
        if hostile { 3 << 30 } else { 8 << 30 },
    ) {
        Ok(b) => serde_json::from_slice(&b).unwrap_or_else(|e| RunResult { seed: plan.seed, died: format!("unparsable child output: {e}"), ..Default::default() }),
        Err(e) => RunResult { seed: plan.seed, plan_hash: plan.hash(), died: e, ..Default::default() },
    }
}

#[derive(Serialize, Deserialize, Default)]
struct WorkerOut {
    runs: u64,
    sim_ms: u64,
    steps: u64,
    nontrivial: u64,
    inconclusive: u64,
    fps: Vec<u64>,
    stats: BTreeMap<String, u64>,
    probes: BTreeMap<String, u64>,
    sched: BTreeMap<String, u64>,
    violations: Vec<(u64, Violation)>,
    died: Vec<(u64, String)>,
    incomplete: u64,
}

#[derive(Serialize, Deserialize, Default, Clone)]
pub struct KnownFinding {
    pub property: String,
    pub signature: String,
    pub description: String,
    #[serde(default)]
    pub replay: String,
}
#[derive(Serialize, Deserialize, Default)]
pub struct KnownFile {
    #[serde(default)]
    pub findings: Vec<KnownFinding>,
    #[serde(default)]
    pub fixed: Vec<String>,
}

fn load_known() -> KnownFile {
    std::fs::read_to_string(format!("{VERIF_DIR}/known_findings.json")).ok().and_then(|s| serde_json::from_str(&s).ok()).unwrap_or_default()
}

#[derive(Serialize, Deserialize)]
pub struct ReplayFile {
    pub engine: String,
    pub property: String,
    pub rule: String,
    pub signature: String,
    pub detail: String,
    pub seed: u64,
    pub expected_fp: u64,
    pub minimised_from_ops: usize,
    pub plan: Plan,
}

fn seed_for(base: u64, i: u64) -> u64 {
    base.wrapping_mul(1_000_003).wrapping_add(i)
}

pub fn check(args: &[String]) -> i32 {
    let t0 = Instant::now();
    let prop = arg(args, "--prop").or(arg(args, "--scenario")).expect("--prop");
    let Some(def) = scen::find(prop) else {
        eprintln!("unknown property/scenario {prop}");
        return 2;
    };
    let tier = arg(args, "--tier").map(|s| s.to_string()).or(std::env::var("VERIF_TIER").ok()).unwrap_or("quick".into());
    let base: u64 = arg(args, "--seed").map(|s| s.to_string()).or(std::env::var("VERIF_SEED").ok()).and_then(|s| s.parse().ok()).unwrap_or(1);
    let jobs: u64 = arg(args, "--jobs").and_then(|s| s.parse().ok()).unwrap_or(16);
    let runs: u64 = arg(args, "--runs").and_then(|s| s.parse().ok()).unwrap_or(if tier == "quick" { def.quick_runs } else { def.thorough_runs });
    let wall_cap: u64 = arg(args, "--wall-cap-s").and_then(|s| s.parse().ok()).unwrap_or(if tier == "quick" { 240 } else { 7200 });
    let no_min = flag(args, "--no-minimise");
    println!("check property={} scenario={} tier={} seed_base={} runs={} jobs={}", def.prop, def.name, tier, base, runs, jobs);

    // determinism self-check on a small sample (two executions, separate processes)
    let det_n = if tier == "quick" { 8 } else { 100 };
    let mut det_pairs = 0;
    for i in 0..det_n.min(runs) {
        let plan = (def.plan)(seed_for(base, i), &tier);
        let a = run_forked(&plan, false);
        let b = run_forked(&plan, false);
        if a.fp != b.fp || a.steps != b.steps || a.died != b.died {
            eprintln!("HARNESS ERROR: nondeterministic run for seed {} (fp {} vs {}, steps {} vs {}, died '{}' vs '{}')", plan.seed, a.fp, b.fp, a.steps, b.steps, a.died, b.died);
            return 2;
        }
        det_pairs += 1;
    }

    // fork workers
    let mut pipes = vec![];
    for w in 0..jobs {
        let mut fds = [0i32; 2];
        unsafe {
            libc::pipe(fds.as_mut_ptr());
            let pid = libc::fork();
            if pid == 0 {
                libc::close(fds[0]);
                let out = worker(&def, &tier, base, runs, w, jobs, wall_cap);
                let mut file = std::fs::File::from_raw_fd(fds[1]);
                let _ = file.write_all(&serde_json::to_vec(&out).unwrap());
                let _ = file.flush();
                libc::_exit(0);
            }
            libc::close(fds[1]);
            pipes.push((pid, fds[0]));
        }
    }
    let mut total = WorkerOut::default();
    let mut fps: BTreeSet<u64> = BTreeSet::new();
    for (pid, fd) in pipes {
        let mut file = unsafe { std::fs::File::from_raw_fd(fd) };
        let mut buf = vec![];
        let _ = file.read_to_end(&mut buf);
        let mut status = 0;
        unsafe { libc::waitpid(pid, &mut status, 0) };
        let Ok(o) = serde_json::from_slice::<WorkerOut>(&buf) else {
            eprintln!("HARNESS ERROR: worker died");
            return 2;
        };
        total.runs += o.runs;
        total.sim_ms += o.sim_ms;
        total.steps += o.steps;
        total.nontrivial += o.nontrivial;
        total.inconclusive += o.inconclusive;
        total.incomplete += o.incomplete;
        fps.extend(o.fps);
        for (k, v) in o.stats {
            *total.stats.entry(k).or_insert(0) += v;
        }
        for (k, v) in o.probes {
            *total.probes.entry(k).or_insert(0) += v;
        }
        for (k, v) in o.sched {
            *total.sched.entry(k).or_insert(0) += v;
        }
        total.violations.extend(o.violations);
        total.died.extend(o.died);
    }
    total.violations.sort_by_key(|v| v.0);
    total.died.sort();
    let explore_s = t0.elapsed().as_secs_f64();

    // died runs
    for (seed, why) in &total.died {
        if def.died_is_violation {
            total.violations.push((*seed, Violation { prop: def.prop.into(), rule: format!("{}.process-died", def.prop), sig: format!("{}.process-died", def.prop), detail: format!("simulated process died: {why}") }));
        }
    }

    // group by signature
    let known = load_known();
    let mut by_sig: BTreeMap<String, Vec<(u64, Violation)>> = BTreeMap::new();
    for (s, v) in &total.violations {
        by_sig.entry(v.sig.clone()).or_default().push((*s, v.clone()));
    }
    let mut exit = 0;
    let mut known_hit: BTreeMap<String, u64> = BTreeMap::new();
    let mut new_violations = 0;
    let mut replay_paths = vec![];
    for (sig, list) in &by_sig {
        if let Some(k) = known.findings.iter().find(|k| k.property == def.prop && k.signature == *sig) {
            println!("KNOWN-FINDING: property={} {} [{} run(s), e.g. seed {}] {}", def.prop, sig, list.len(), list[0].0, k.description);
            known_hit.insert(sig.clone(), list.len() as u64);
            continue;
        }
        new_violations += list.len();
        let (seed, v) = &list[0];
        let plan = (def.plan)(*seed, &tier);
        let path = format!("{VERIF_DIR}/replays/{}-{}.json", def.prop, seed);
        let _ = std::fs::create_dir_all(format!("{VERIF_DIR}/replays"));
        match make_replay(&def, &plan, v, no_min) {
            Ok(rf) => {
                std::fs::write(&path, serde_json::to_string_pretty(&rf).unwrap()).unwrap();
                println!("violation rule={} sig=\"{}\" runs={} first_seed={} detail: {}", rf.rule, rf.signature, list.len(), seed, rf.detail);
                println!("VIOLATION property={} replay={}", def.prop, path);
                replay_paths.push(path);
                exit = 1;
            }
            Err(e) => {
                eprintln!("HARNESS ERROR: violation of seed {seed} ({sig}) did not reproduce deterministically: {e}");
                return 2;
            }
        }
    }

    // evidence
    let samples: Vec<serde_json::Value> = (0..3.min(runs))
        .map(|i| {
            let plan = (def.plan)(seed_for(base, i), &tier);
            let r = run_forked(&plan, false);
            serde_json::json!({"seed": plan.seed, "plan": plan, "verdict": {"violations": r.violations, "nontrivial": r.nontrivial, "steps": r.steps, "sim_ms": r.sim_ms, "fingerprint": format!("{:016x}", r.fp)}})
        })
        .collect();
    let wall = t0.elapsed().as_secs_f64();
    let zero_probes: Vec<&String> = total.probes.iter().filter(|(_, v)| **v == 0).map(|(k, _)| k).collect();
    let faults: BTreeMap<String, u64> = ["drop", "dup", "reorder", "delayed", "partition_drop", "crash", "crash_drop", "inject", "coalesce", "scripted"].iter().map(|k| (k.to_string(), total.stats.get(&format!("net.{k}")).copied().unwrap_or(0))).collect();
    let ev = serde_json::json!({
        "property_id": def.prop,
        "tier": tier,
        "seed": base,
        "level": "exploration",
        "coverage": {
            "evaluations": total.runs,
            "distinct_nontrivial": fps.len(),
            "rule": format!("each evaluation is one simulated execution of scenario '{}' from plan_from_seed(seed_base*1000003+i); it is non-trivial iff {}; distinct = distinct interleaving fingerprints (hash of the event log: task polls, timer firings, datagram arrivals) among non-trivial runs", def.name, def.nontrivial_rule),
            "samples": samples,
            "seeds": {"first": seed_for(base, 0), "count": total.runs, "derivation": "seed_base*1000003+i"},
            "runs_per_hour": (total.runs as f64 / explore_s.max(0.001) * 3600.0) as u64,
            "sim_seconds_total": total.sim_ms / 1000,
            "steps_total": total.steps,
            "nontrivial_runs": total.nontrivial,
            "inconclusive_runs": total.inconclusive,
            "incomplete_runs": total.incomplete,
            "died_runs": total.died.len(),
            "faults_fired": faults,
            "probes": total.probes,
            "probes_stuck_at_zero": zero_probes,
            "schedulers": total.sched,
            "net_stats": total.stats,
            "known_findings_hit": known_hit,
            "determinism_pairs_checked": det_pairs,
            "real_components": ["dust_dds::dds_async (public API)", "dust_dds::dcps (mail handler, entities, discovery, status conditions, listeners, channels)", "dust_dds::rtps (stateful/stateless readers and writers)", "dust_dds::rtps_messages (codecs)", "dust_dds::xtypes (serializer, deserializer, type objects)", "dust_dds_derive output for harness types", "embassy-sync channel/mutex", "critical-section (std)"],
            "stub_components": ["std_runtime executor/timer/clock -> SimExecutor/SimTimer/SimClock", "rtps_udp_transport -> SimNet"],
        },
        "assumptions": ["the simulator's executor/clock/network model legal behaviours of the std runtime and UDP", "seeded sampling: a clean batch is evidence, not proof", "one worker task serves all simulated participants (process-wide static channel in dust-dds)"],
        "wall_s": wall,
        "violations": new_violations,
    });
    let _ = std::fs::create_dir_all(format!("{VERIF_DIR}/evidence"));
    std::fs::write(format!("{VERIF_DIR}/evidence/{}.json", def.prop), serde_json::to_string_pretty(&ev).unwrap()).unwrap();
    println!(
        "done property={} runs={} nontrivial={} distinct_fingerprints={} violations={} known={} died={} inconclusive={} sim_s={} wall_s={:.1}",
        def.prop,
        total.runs,
        total.nontrivial,
        fps.len(),
        new_violations,
        known_hit.values().sum::<u64>(),
        total.died.len(),
        total.inconclusive,
        total.sim_ms / 1000,
        wall
    );
    if !def.died_is_violation && !total.died.is_empty() {
        eprintln!("HARNESS ERROR: {} run(s) died, e.g. seed {}: {}", total.died.len(), total.died[0].0, total.died[0].1);
        return 2;
    }
    exit
}

fn worker(def: &ScenarioDef, tier: &str, base: u64, runs: u64, w: u64, jobs: u64, wall_cap: u64) -> WorkerOut {
    let t0 = Instant::now();
    let mut o = WorkerOut::default();
    let mut i = w;
    while i < runs {
        if t0.elapsed().as_secs() > wall_cap {
            break;
        }
        let seed = seed_for(base, i);
        let plan = (def.plan)(seed, tier);
        let n_phases = plan.phases.len();
        let r = run_forked(&plan, false);
        o.runs += 1;
        let watchdog = r.died.contains("signal 24") || r.died.contains("signal 14");
        if watchdog && def.name != "hostile-datagrams" && tier == "thorough" {
            // the run was too heavy for the per-run CPU budget (thorough-tier histories only; in the quick tier a run
            // that does not end stays an error): an exploration limit of
            // the harness, reported as an incomplete run; for hostile input a run that does not end is the violation
            o.incomplete += 1;
        } else if !r.died.is_empty() {
            o.died.push((seed, r.died.clone()));
        } else {
            o.sim_ms += r.sim_ms;
            o.steps += r.steps;
            if r.nontrivial {
                o.nontrivial += 1;
                o.fps.push(r.fp);
            }
            if r.inconclusive {
                o.inconclusive += 1;
            }
            if r.completed_phases < n_phases {
                o.incomplete += 1;
            }
            for (k, v) in r.stats {
                *o.stats.entry(k).or_insert(0) += v;
            }
            for (k, v) in r.probes {
                *o.probes.entry(k).or_insert(0) += v;
            }
            *o.sched.entry(r.sched).or_insert(0) += 1;
            for v in r.violations {
                if o.violations.len() < 2000 {
                    o.violations.push((seed, v));
                }
            }
        }
        i += jobs;
    }
    o
}

fn has_sig(r: &RunResult, sig: &str, def: &ScenarioDef) -> bool {
    r.violations.iter().any(|v| v.sig == sig) || (!r.died.is_empty() && def.died_is_violation && sig.ends_with(".process-died"))
}

/// confirm, freeze the faults that fired, minimise, and build the replay file
fn make_replay(def: &ScenarioDef, plan: &Plan, v: &Violation, no_min: bool) -> Result<ReplayFile, String> {
    let orig_ops = plan.n_ops();
    let a = run_forked(plan, true);
    if !has_sig(&a, &v.sig, def) {
        return Err("violation disappeared on re-execution".into());
    }
    let mut best = plan.clone();
    let mut best_res = a.clone();
    if !no_min && a.died.is_empty() {
        // freeze
        if let Some(fired) = &a.fired {
            let mut fz = plan.clone();
            fz.net.frozen = Some(fired.clone());
            fz.net.rules.clear();
            fz.net.partitions.clear();
            fz.net.scripted.clear();
            let r = run_forked(&fz, false);
            if has_sig(&r, &v.sig, def) {
                best = fz;
                best_res = r;
            }
        }
        let mut budget = 250usize;
        let mut try_plan = |cand: Plan, best: &mut Plan, best_res: &mut RunResult, budget: &mut usize| -> bool {
            if *budget == 0 {
                return false;
            }
            *budget -= 1;
            let r = run_forked(&cand, false);
            if has_sig(&r, &v.sig, def) {
                *best = cand;
                *best_res = r;
                true
            } else {
                false
            }
        };
        // 1. drop frozen faults (chunks)
        if let Some(fz) = best.net.frozen.clone() {
            let mut keys: Vec<u64> = fz.keys().copied().collect();
            let mut chunk = keys.len().div_ceil(2).max(1);
            while chunk >= 1 && !keys.is_empty() && budget > 0 {
                let mut i = 0;
                while i < keys.len() && budget > 0 {
                    let end = (i + chunk).min(keys.len());
                    let mut cand = best.clone();
                    let m = cand.net.frozen.as_mut().unwrap();
                    for k in &keys[i..end] {
                        m.remove(k);
                    }
                    if try_plan(cand, &mut best, &mut best_res, &mut budget) {
                        keys.drain(i..end);
                    } else {
                        i = end;
                    }
                }
                if chunk == 1 {
                    break;
                }
                chunk = chunk.div_ceil(2);
            }
        }
        // 2. drop client ops of non-fixed phases
        for pi in 0..best.phases.len() {
            if best.phases[pi].fixed {
                continue;
            }
            for ci in 0..best.phases[pi].clients.len() {
                // daemons are the observers (drain loops, pollers): without them a rule of the kind "was not presented"
                // is reproduced trivially, so they are never minimised away
                if best.phases[pi].clients[ci].daemon {
                    continue;
                }
                let mut chunk = best.phases[pi].clients[ci].ops.len().div_ceil(2).max(1);
                loop {
                    let mut i = 0;
                    while i < best.phases[pi].clients[ci].ops.len() && budget > 0 {
                        let n = best.phases[pi].clients[ci].ops.len();
                        let end = (i + chunk).min(n);
                        let mut cand = best.clone();
                        cand.phases[pi].clients[ci].ops.drain(i..end);
                        if !try_plan(cand, &mut best, &mut best_res, &mut budget) {
                            i = end;
                        }
                    }
                    if chunk == 1 || budget == 0 {
                        break;
                    }
                    chunk = chunk.div_ceil(2);
                }
            }
        }
        // 3. simplify knobs
        let mut cand = best.clone();
        cand.sched.kind = crate::core::SchedKind::Fifo;
        try_plan(cand, &mut best, &mut best_res, &mut budget);
        let mut cand = best.clone();
        cand.time.poll_jitter_ns = 0;
        try_plan(cand, &mut best, &mut best_res, &mut budget);
        let mut cand = best.clone();
        cand.net.jitter_us = 0;
        try_plan(cand, &mut best, &mut best_res, &mut budget);
        // 4. shrink payload sizes
        for pi in 0..best.phases.len() {
            for ci in 0..best.phases[pi].clients.len() {
                for oi in 0..best.phases[pi].clients[ci].ops.len() {
                    if let Op::W { len, .. } = &best.phases[pi].clients[ci].ops[oi] {
                        let mut l = *len;
                        while l > 0 && budget > 0 {
                            let nl = l / 2;
                            let mut cand = best.clone();
                            if let Op::W { len, .. } = &mut cand.phases[pi].clients[ci].ops[oi] {
                                *len = nl;
                            }
                            if try_plan(cand, &mut best, &mut best_res, &mut budget) {
                                l = nl;
                            } else {
                                break;
                            }
                        }
                    }
                }
            }
        }
    }
    // final confirmation in a fresh process: same signature and same fingerprint twice
    let c1 = run_forked(&best, false);
    let c2 = run_forked(&best, false);
    if !has_sig(&c1, &v.sig, def) || c1.fp != c2.fp || c1.died != c2.died {
        return Err(format!("minimised plan is not stable (fp {} vs {})", c1.fp, c2.fp));
    }
    let detail = c1.violations.iter().find(|x| x.sig == v.sig).map(|x| x.detail.clone()).unwrap_or_else(|| format!("process died: {}", c1.died));
    let _ = best_res;
    Ok(ReplayFile { engine: "ddsim".into(), property: def.prop.into(), rule: v.rule.clone(), signature: v.sig.clone(), detail, seed: plan.seed, expected_fp: c1.fp, minimised_from_ops: orig_ops, plan: best })
}

pub fn replay(args: &[String]) -> i32 {
    let path = arg(args, "--file").or(args.get(1).map(|s| s.as_str())).expect("replay file");
    let s = match std::fs::read_to_string(path) {
        Ok(s) => s,
        Err(e) => {
            eprintln!("cannot read {path}: {e}");
            return 2;
        }
    };
    let rf: ReplayFile = match serde_json::from_str(&s) {
        Ok(r) => r,
        Err(e) => {
            eprintln!("bad replay file: {e}");
            return 2;
        }
    };
    let Some(def) = scen::find(&rf.plan.scenario) else { return 2 };
    let r = run_forked(&rf.plan, false);
    let same_sig = has_sig(&r, &rf.signature, &def);
    println!("replay property={} signature=\"{}\" reproduced={} fingerprint={:016x} expected={:016x}", rf.property, rf.signature, same_sig, r.fp, rf.expected_fp);
    for v in &r.violations {
        println!("  violation {}: {}", v.sig, v.detail);
    }
    if same_sig {
        if r.fp != rf.expected_fp && r.died.is_empty() {
            println!("note: same violation, different interleaving fingerprint (the code under test changed since the file was written)");
        }
        println!("VIOLATION property={} replay={}", rf.property, path);
        1
    } else if !r.violations.is_empty() || (!r.died.is_empty() && def.died_is_violation) {
        println!("a different violation of this property occurred");
        println!("VIOLATION property={} replay={}", rf.property, path);
        1
    } else {
        0
    }
}

/// `ddsim mkreplay --prop Cxx --seed N --sig "<signature>" --out file`: minimise and store a replay
/// for a violation signature (used for the replays of known findings and of fixed defects)
pub fn mkreplay(args: &[String]) -> i32 {
    let prop = arg(args, "--prop").expect("--prop");
    let Some(def) = scen::find(prop) else { return 2 };
    let seed: u64 = arg(args, "--seed").and_then(|s| s.parse().ok()).expect("--seed");
    let tier = arg(args, "--tier").unwrap_or("quick");
    let out = arg(args, "--out").expect("--out");
    let plan = (def.plan)(seed, tier);
    let r = run_forked(&plan, false);
    let sig = arg(args, "--sig").map(|s| s.to_string()).or(r.violations.first().map(|v| v.sig.clone()));
    let Some(sig) = sig else {
        eprintln!("no violation for this seed");
        return 2;
    };
    let Some(v) = r.violations.iter().find(|v| v.sig == sig).cloned() else {
        eprintln!("signature not found among {:?}", r.violations.iter().map(|v| v.sig.clone()).collect::<Vec<_>>());
        return 2;
    };
    match make_replay(&def, &plan, &v, false) {
        Ok(rf) => {
            std::fs::write(out, serde_json::to_string_pretty(&rf).unwrap()).unwrap();
            println!("wrote {out}: {} ops (from {})", rf.plan.n_ops(), rf.minimised_from_ops);
            0
        }
        Err(e) => {
            eprintln!("{e}");
            2
        }
    }
}

//! Less common operations of the interpreter (kept apart from world.rs for size).

use crate::hist::*;
use crate::plan::*;
use crate::types::*;
use crate::world::*;
use dust_dds::infrastructure::instance::InstanceHandle;
use dust_dds::infrastructure::qos_policy::*;
use std::rc::Rc;

pub async fn matched_data(w: &Rc<World>, kind: &str, id: u32, peer: u32) -> Res {
    let st_peer_r = w.st.borrow().readers.get(&peer).map(|r| r.handle);
    let st_peer_w = w.st.borrow().writers.get(&peer).map(|r| r.handle);
    match kind {
        "writer" => {
            let wi = w.st.borrow().writers.get(&id).cloned();
            let (Some(wi), Some(ph)) = (wi, st_peer_r) else { return Res::Skipped("no entity") };
            let r = match &wi.h {
                WriterH::Keyed(x) => x.get_matched_subscription_data(InstanceHandle::new(ph)).await,
                WriterH::Plain(x) => x.get_matched_subscription_data(InstanceHandle::new(ph)).await,
                WriterH::Other(x) => x.get_matched_subscription_data(InstanceHandle::new(ph)).await,
            };
            Res::Qos(
                r.map(|d| Q {
                    reliable: Some(d.reliability().kind == ReliabilityQosPolicyKind::Reliable),
                    durability: Some(match d.durability().kind {
                        DurabilityQosPolicyKind::Volatile => 0,
                        DurabilityQosPolicyKind::TransientLocal => 1,
                        DurabilityQosPolicyKind::Transient => 2,
                        DurabilityQosPolicyKind::Persistent => 3,
                    }),
                    deadline_ns: dk_back(d.deadline().period),
                    latency_ns: dk_back(d.latency_budget().duration),
                    lease_ns: dk_back(d.liveliness().lease_duration),
                    by_source: d.destination_order().kind == DestinationOrderQosPolicyKind::BySourceTimestamp,
                    exclusive: d.ownership().kind == OwnershipQosPolicyKind::Exclusive,
                    tbf_ns: dk_back(d.time_based_filter().minimum_separation).filter(|n| *n > 0),
                    user_data: d.user_data().value.clone(),
                    partition: Some(d.partition().name.clone()),
                    group_data: d.group_data().value.clone(),
                    topic_data: d.topic_data().value.clone(),
                    ..Default::default()
                })
                .map_err(E::from),
            )
        }
        _ => {
            let ri = w.st.borrow().readers.get(&id).cloned();
            let (Some(ri), Some(ph)) = (ri, st_peer_w) else { return Res::Skipped("no entity") };
            let r = match &ri.h {
                ReaderH::Keyed(x) => x.get_matched_publication_data(InstanceHandle::new(ph)).await,
                ReaderH::Plain(x) => x.get_matched_publication_data(InstanceHandle::new(ph)).await,
                ReaderH::Other(x) => x.get_matched_publication_data(InstanceHandle::new(ph)).await,
            };
            Res::Qos(
                r.map(|d| Q {
                    reliable: Some(d.reliability().kind == ReliabilityQosPolicyKind::Reliable),
                    durability: Some(match d.durability().kind {
                        DurabilityQosPolicyKind::Volatile => 0,
                        DurabilityQosPolicyKind::TransientLocal => 1,
                        DurabilityQosPolicyKind::Transient => 2,
                        DurabilityQosPolicyKind::Persistent => 3,
                    }),
                    deadline_ns: dk_back(d.deadline().period),
                    latency_ns: dk_back(d.latency_budget().duration),
                    lease_ns: dk_back(d.liveliness().lease_duration),
                    by_source: d.destination_order().kind == DestinationOrderQosPolicyKind::BySourceTimestamp,
                    exclusive: d.ownership().kind == OwnershipQosPolicyKind::Exclusive,
                    strength: d.ownership_strength().value,
                    lifespan_ns: dk_back(d.lifespan().duration),
                    user_data: d.user_data().value.clone(),
                    partition: Some(d.partition().name.clone()),
                    group_data: d.group_data().value.clone(),
                    topic_data: d.topic_data().value.clone(),
                    ..Default::default()
                })
                .map_err(E::from),
            )
        }
    }
}

pub async fn ignore(w: &Rc<World>, p: u32, what: &str, target_kind: &str, target: u32) -> Res {
    let dp = w.st.borrow().participants.get(&p).map(|x| x.0.clone());
    let Some(dp) = dp else { return Res::Skipped("no participant") };
    let h: Option<Hd> = {
        let st = w.st.borrow();
        match target_kind {
            "participant" => st.participants.get(&target).map(|x| hd(x.0.get_instance_handle())),
            "foreign" => Some(crate::hostile::foreign_handle(target)),
            "writer" => st.writers.get(&target).map(|x| x.handle),
            "reader" => st.readers.get(&target).map(|x| x.handle),
            _ => None,
        }
    };
    let Some(h) = h else { return Res::Skipped("no target") };
    let h = InstanceHandle::new(h);
    match what {
        "participant" => Res::Unit(dp.ignore_participant(h).await.map_err(E::from)),
        "publication" => Res::Unit(dp.ignore_publication(h).await.map_err(E::from)),
        "subscription" => Res::Unit(dp.ignore_subscription(h).await.map_err(E::from)),
        _ => Res::Skipped("bad what"),
    }
}

pub async fn set_listener(w: &Rc<World>, kind: &str, id: u32, l: &Option<L>) -> Res {
    let m = l_mask(l);
    macro_rules! lst {
        ($level:expr) => {
            l.as_ref().map(|_| RecL { level: $level, owner: id })
        };
    }
    match kind {
        "participant" => {
            let dp = w.st.borrow().participants.get(&id).map(|x| x.0.clone());
            let Some(dp) = dp else { return Res::Skipped("no participant") };
            Res::Unit(dp.set_listener(lst!("participant"), &m).await.map_err(E::from))
        }
        "publisher" => {
            let x = w.st.borrow().publishers.get(&id).cloned();
            let Some((x, _)) = x else { return Res::Skipped("no publisher") };
            Res::Unit(x.set_listener(lst!("publisher"), &m).await.map_err(E::from))
        }
        "subscriber" => {
            let x = w.st.borrow().subscribers.get(&id).cloned();
            let Some((x, _)) = x else { return Res::Skipped("no subscriber") };
            Res::Unit(x.set_listener(lst!("subscriber"), &m).await.map_err(E::from))
        }
        "writer" => {
            let wi = w.st.borrow().writers.get(&id).cloned();
            let Some(wi) = wi else { return Res::Skipped("no writer") };
            match &wi.h {
                WriterH::Keyed(x) => Res::Unit(x.set_listener(lst!("writer"), &m).await.map_err(E::from)),
                WriterH::Plain(x) => Res::Unit(x.set_listener(lst!("writer"), &m).await.map_err(E::from)),
                WriterH::Other(x) => Res::Unit(x.set_listener(lst!("writer"), &m).await.map_err(E::from)),
            }
        }
        "reader" => {
            let ri = w.st.borrow().readers.get(&id).cloned();
            let Some(ri) = ri else { return Res::Skipped("no reader") };
            match &ri.h {
                ReaderH::Keyed(x) => Res::Unit(x.set_listener(lst!("reader"), &m).await.map_err(E::from)),
                ReaderH::Plain(x) => Res::Unit(x.set_listener(lst!("reader"), &m).await.map_err(E::from)),
                ReaderH::Other(x) => Res::Unit(x.set_listener(lst!("reader"), &m).await.map_err(E::from)),
            }
        }
        _ => Res::Skipped("bad kind"),
    }
}

//! CLI: single runs, batches (fork per run), replay, minimisation, evidence.

use crate::plan::Plan;
use crate::runner;
use crate::scen::{self, Verdict, Violation};
use serde::{Deserialize, Serialize};
use std::collections::BTreeMap;

#[derive(Serialize, Deserialize, Clone, Debug, Default)]
pub struct RunResult {
    pub seed: u64,
    pub plan_hash: u64,
    pub fp: u64,
    pub steps: u64,
    pub sim_ms: u64,
    pub violations: Vec<Violation>,
    pub nontrivial: bool,
    pub inconclusive: bool,
    pub panics: Vec<String>,
    pub stats: BTreeMap<String, u64>,
    pub probes: BTreeMap<String, u64>,
    pub sched: String,
    pub completed_phases: usize,
    #[serde(default, skip_serializing_if = "Option::is_none")]
    pub fired: Option<BTreeMap<u64, crate::net::Fate>>,
    #[serde(default)]
    pub died: String,
}

pub fn run_plan(plan: &Plan, trace: bool, want_fired: bool) -> (RunResult, Option<Vec<String>>) {
    let def = scen::find(&plan.scenario).expect("unknown scenario");
    let out = runner::execute(plan, trace);
    let verdict: Verdict = (def.check)(plan, &out);
    let sched = match &plan.sched.kind {
        crate::core::SchedKind::Fifo => "fifo",
        crate::core::SchedKind::Random => "random",
        crate::core::SchedKind::Pct { .. } => "pct",
    };
    let fired = if want_fired { Some(crate::net::with_net(|n| n.fired.clone())) } else { None };
    let res = RunResult {
        seed: plan.seed,
        plan_hash: plan.hash(),
        fp: out.fp,
        steps: out.steps,
        sim_ms: out.sim_ns / 1_000_000,
        violations: verdict.violations,
        nontrivial: verdict.nontrivial,
        inconclusive: verdict.inconclusive,
        panics: out.panics.iter().map(|p| format!("{:?}: {}", p.class, p.msg)).collect(),
        stats: out.stats.clone(),
        probes: verdict.probes,
        sched: sched.into(),
        completed_phases: out.completed_phases,
        fired,
        died: String::new(),
    };
    (res, out.trace)
}

pub fn arg<'a>(args: &'a [String], name: &str) -> Option<&'a str> {
    args.iter().position(|a| a == name).and_then(|i| args.get(i + 1)).map(|s| s.as_str())
}
pub fn flag(args: &[String], name: &str) -> bool {
    args.iter().any(|a| a == name)
}

pub fn main(args: &[String]) -> i32 {
    match args.first().map(|s| s.as_str()) {
        Some("run") => {
            let tier = arg(args, "--tier").unwrap_or("quick");
            let plan: Plan = if let Some(p) = arg(args, "--plan") {
                let s = std::fs::read_to_string(p).expect("read plan");
                let v: serde_json::Value = serde_json::from_str(&s).expect("plan json");
                let pv = if v.get("plan").is_some() { v["plan"].clone() } else { v };
                serde_json::from_value(pv).expect("plan structure")
            } else {
                let sc = arg(args, "--scenario").expect("--scenario");
                let seed: u64 = arg(args, "--seed").unwrap_or("1").parse().unwrap();
                let def = scen::find(sc).expect("unknown scenario");
                (def.plan)(seed, tier)
            };
            if flag(args, "--print-plan") {
                println!("{}", serde_json::to_string_pretty(&plan).unwrap());
                return 0;
            }
            let (res, trace) = run_plan(&plan, flag(args, "--trace"), flag(args, "--fired"));
            if let Some(t) = trace {
                for l in t {
                    println!("{}", l);
                }
            }
            if flag(args, "--history") {
                crate::hist::with_hist(|h| {
                    for r in &h.recs {
                        if matches!(r.op, crate::plan::Op::Drain { .. }) { continue; }
                        println!("ph{} c{} #{} [{}..{}] t={:.6}..{:.6} {} -> {:?}", r.phase, r.client, r.idx, r.inv_step, r.ret_step as i64, r.inv_t as f64 / 1e9, r.ret_t as i64 as f64 / 1e9, serde_json::to_string(&r.op).unwrap(), r.res);
                    }
                });
            }
            if flag(args, "--brief") {
                crate::hist::with_hist(|h| {
                    for r in &h.recs {
                        if r.phase == 0 || matches!(r.op, crate::plan::Op::Drain { .. } | crate::plan::Op::WaitAcks { .. }) { continue; }
                        let res = match &r.res {
                            crate::hist::Res::Samples(Ok(v)) => format!("[{}]", v.iter().map(|s| format!("k{}:{}{}{}{}s{}g{}/{}r{}/{}/{}", s.ih[0], if s.valid { s.seq.to_string() } else { "inv".into() }, if s.read { "R" } else { "" }, if s.new { "N" } else { "" }, ["", "D", "W"][s.ist as usize], "", s.dgc, s.nwgc, s.srank, s.grank, s.agrank)).collect::<Vec<_>>().join(" ")),
                            x => format!("{:?}", x),
                        };
                        println!("ph{} c{} #{} t={:.4} {} -> {}", r.phase, r.client, r.idx, r.inv_t as f64 / 1e9, serde_json::to_string(&r.op).unwrap(), res);
                    }
                    for c in &h.callbacks {
                        println!("callback t={:.4} {}@{}{} {} total={} change={} code={} last={:02x?}", c.t as f64 / 1e9, c.what, c.level, c.owner, c.entity[15], c.total, c.change, c.code, &c.last[..2]);
                    }
                });
            }
            if flag(args, "--logs") {
                crate::hist::with_hist(|h| {
                    for (r, l) in &h.reader_logs {
                        for (s, t, x) in l {
                            println!("reader {} step {} t={:.6} seq={} key={} valid={} len={} ist={} new={} ph={:02x?}", r, s, *t as f64 / 1e9, x.seq, x.key, x.valid, x.len, x.ist, x.new, &x.ph[8..]);
                        }
                    }
                    for c in &h.callbacks {
                        println!("callback {:?}", c);
                    }
                });
            }
            if flag(args, "--wire") {
                let from: u64 = arg(args, "--from-ms").and_then(|s| s.parse().ok()).unwrap_or(0);
                let to: u64 = arg(args, "--to-ms").and_then(|s| s.parse().ok()).unwrap_or(u64::MAX);
                let cls: u32 = arg(args, "--class").and_then(|s| s.parse().ok()).unwrap_or(crate::wire::C_ALL);
                crate::net::with_net(|n| {
                    for w in &n.wire {
                        if w.t_send / 1_000_000 < from || w.t_send / 1_000_000 > to || w.class & cls == 0 { continue; }
                        if !flag(args, "--wire-full") {
                            let subs: Vec<String> = w.parsed.subs.iter().filter(|s| !matches!(s, crate::wire::Sub::InfoDst(_) | crate::wire::Sub::InfoTs)).map(|s| format!("{:?}", s).replace("reader: ", "r:").replace("writer: ", "w:")).collect();
                            println!("#{} {:.4}->{} {}>{} {}", w.ordinal, w.t_send as f64 / 1e9, w.t_arr.map(|t| format!("{:.4}", t as f64 / 1e9)).unwrap_or("LOST".into()), w.src.map(|s| s.to_string()).unwrap_or("X".into()), w.dst, subs.join(" "));
                            continue;
                        }
                        println!("wire #{} t={:.6} arr={:?} {:?}->{} {:?} {} {:?}", w.ordinal, w.t_send as f64 / 1e9, w.t_arr.map(|t| t as f64 / 1e9), w.src, w.dst, w.port, crate::wire::class_names(w.class), w.parsed.subs);
                    }
                });
            }
            println!("{}", serde_json::to_string(&res).unwrap());
            // leave without running destructors of leaked tasks
            unsafe { libc::_exit(if res.violations.is_empty() { 0 } else { 1 }) }
        }
        Some("check") => crate::batch::check(args),
        Some("replay") => crate::batch::replay(args),
        Some("mkreplay") => crate::batch::mkreplay(args),
        Some("list") => {
            for d in scen::all() {
                println!("{} {}", d.prop, d.name);
            }
            0
        }
        _ => {
            eprintln!("usage: ddsim run --scenario S --seed N [--tier quick|thorough] [--plan file] [--trace] [--history] [--wire]");
            2
        }
    }
}

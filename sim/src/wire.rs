//! Minimal, independent RTPS datagram inspector (observation and fault targeting only;
//! never used as an oracle for the codec).

#[derive(Clone, Debug, PartialEq)]
pub enum Sub {
    Data { reader: u32, writer: u32, sn: i64, len: usize, flags: u8 },
    DataFrag { reader: u32, writer: u32, sn: i64, start: u32, n: u16, frag_size: u16, sample_size: u32 },
    Heartbeat { reader: u32, writer: u32, first: i64, last: i64, count: i32, flags: u8 },
    AckNack { reader: u32, writer: u32, base: i64, nbits: u32, count: i32, flags: u8 },
    Gap { reader: u32, writer: u32, start: i64, base: i64, nbits: u32 },
    NackFrag { reader: u32, writer: u32, sn: i64, base: u32, nbits: u32 },
    HeartbeatFrag { reader: u32, writer: u32, sn: i64, last: u32 },
    InfoDst([u8; 12]),
    InfoTs,
    Other(u8),
}

#[derive(Clone, Debug, Default)]
pub struct Parsed {
    pub ok: bool,
    pub src_prefix: [u8; 12],
    pub subs: Vec<Sub>,
    /// byte offset and total length of each submessage (incl. its 4 byte header)
    pub spans: Vec<(usize, usize)>,
}

pub const C_SPDP: u32 = 1;
pub const C_SEDP: u32 = 2; // any builtin endpoint traffic except SPDP
pub const C_UDATA: u32 = 4;
pub const C_UFRAG: u32 = 8;
pub const C_UHB: u32 = 16;
pub const C_UACK: u32 = 32;
pub const C_UGAP: u32 = 64;
pub const C_UNACKFRAG: u32 = 128;
pub const C_OTHER: u32 = 256;
pub const C_USER: u32 = C_UDATA | C_UFRAG | C_UHB | C_UACK | C_UGAP | C_UNACKFRAG;
pub const C_USER_FWD: u32 = C_UDATA | C_UFRAG | C_UHB | C_UGAP; // writer -> reader
pub const C_USER_BACK: u32 = C_UACK | C_UNACKFRAG; // reader -> writer
pub const C_ALL: u32 = 0x1ff;

pub const ENTITY_SPDP_WRITER: u32 = 0x0001_00c2;
pub const ENTITY_SPDP_READER: u32 = 0x0001_00c7;

fn rd_u16(b: &[u8], le: bool) -> u16 {
    if le { u16::from_le_bytes([b[0], b[1]]) } else { u16::from_be_bytes([b[0], b[1]]) }
}
fn rd_u32(b: &[u8], le: bool) -> u32 {
    if le { u32::from_le_bytes([b[0], b[1], b[2], b[3]]) } else { u32::from_be_bytes([b[0], b[1], b[2], b[3]]) }
}
fn rd_sn(b: &[u8], le: bool) -> i64 {
    let hi = rd_u32(&b[0..4], le) as i32 as i64;
    let lo = rd_u32(&b[4..8], le) as i64;
    (hi << 32) | lo
}
fn rd_eid(b: &[u8]) -> u32 {
    u32::from_be_bytes([b[0], b[1], b[2], b[3]])
}
pub fn is_builtin(eid: u32) -> bool {
    (eid & 0xc0) == 0xc0
}

pub fn parse(d: &[u8]) -> Parsed {
    let mut p = Parsed::default();
    if d.len() < 20 || &d[0..4] != b"RTPS" {
        return p;
    }
    p.src_prefix.copy_from_slice(&d[8..20]);
    let mut off = 20;
    while off + 4 <= d.len() {
        let id = d[off];
        let flags = d[off + 1];
        let le = flags & 1 == 1;
        let mut len = rd_u16(&d[off + 2..off + 4], le) as usize;
        let body_start = off + 4;
        if len == 0 && (id != 0x01 && id != 0x09) {
            len = d.len() - body_start; // extends to end of message
        }
        if body_start + len > d.len() {
            return p;
        }
        let b = &d[body_start..body_start + len];
        let sub = match id {
            0x15 if b.len() >= 20 => {
                let o2i = rd_u16(&b[2..4], le) as usize;
                let payload_off = 4 + o2i;
                Sub::Data { reader: rd_eid(&b[4..8]), writer: rd_eid(&b[8..12]), sn: rd_sn(&b[12..20], le), len: b.len().saturating_sub(payload_off), flags }
            }
            0x16 if b.len() >= 32 => Sub::DataFrag {
                reader: rd_eid(&b[4..8]),
                writer: rd_eid(&b[8..12]),
                sn: rd_sn(&b[12..20], le),
                start: rd_u32(&b[20..24], le),
                n: rd_u16(&b[24..26], le),
                frag_size: rd_u16(&b[26..28], le),
                sample_size: rd_u32(&b[28..32], le),
            },
            0x07 if b.len() >= 28 => Sub::Heartbeat {
                reader: rd_eid(&b[0..4]),
                writer: rd_eid(&b[4..8]),
                first: rd_sn(&b[8..16], le),
                last: rd_sn(&b[16..24], le),
                count: rd_u32(&b[24..28], le) as i32,
                flags,
            },
            0x06 if b.len() >= 24 => {
                let nbits = rd_u32(&b[16..20], le);
                let words = ((nbits as usize) + 31) / 32;
                let cpos = 20 + 4 * words;
                let count = if b.len() >= cpos + 4 { rd_u32(&b[cpos..cpos + 4], le) as i32 } else { -1 };
                Sub::AckNack { reader: rd_eid(&b[0..4]), writer: rd_eid(&b[4..8]), base: rd_sn(&b[8..16], le), nbits, count, flags }
            }
            0x08 if b.len() >= 28 => Sub::Gap {
                reader: rd_eid(&b[0..4]),
                writer: rd_eid(&b[4..8]),
                start: rd_sn(&b[8..16], le),
                base: rd_sn(&b[16..24], le),
                nbits: rd_u32(&b[24..28], le),
            },
            0x12 if b.len() >= 24 => Sub::NackFrag {
                reader: rd_eid(&b[0..4]),
                writer: rd_eid(&b[4..8]),
                sn: rd_sn(&b[8..16], le),
                base: rd_u32(&b[16..20], le),
                nbits: rd_u32(&b[20..24], le),
            },
            0x13 if b.len() >= 24 => Sub::HeartbeatFrag { reader: rd_eid(&b[0..4]), writer: rd_eid(&b[4..8]), sn: rd_sn(&b[8..16], le), last: rd_u32(&b[16..20], le) },
            0x0e if b.len() >= 12 => {
                let mut g = [0u8; 12];
                g.copy_from_slice(&b[0..12]);
                Sub::InfoDst(g)
            }
            0x09 => Sub::InfoTs,
            x => Sub::Other(x),
        };
        p.subs.push(sub);
        p.spans.push((off, 4 + len));
        off = body_start + len;
    }
    p.ok = true;
    p
}

pub fn classify(p: &Parsed) -> u32 {
    if !p.ok {
        return C_OTHER;
    }
    let mut c = 0;
    for s in &p.subs {
        c |= match s {
            Sub::Data { writer, .. } if *writer == ENTITY_SPDP_WRITER => C_SPDP,
            Sub::Data { writer, .. } => if is_builtin(*writer) { C_SEDP } else { C_UDATA },
            Sub::DataFrag { writer, .. } => if is_builtin(*writer) { C_SEDP } else { C_UFRAG },
            Sub::Heartbeat { writer, .. } => if is_builtin(*writer) { C_SEDP } else { C_UHB },
            Sub::HeartbeatFrag { writer, .. } => if is_builtin(*writer) { C_SEDP } else { C_UHB },
            Sub::AckNack { writer, reader, .. } => if is_builtin(*writer) || is_builtin(*reader) { C_SEDP } else { C_UACK },
            Sub::Gap { writer, .. } => if is_builtin(*writer) { C_SEDP } else { C_UGAP },
            Sub::NackFrag { writer, reader, .. } => if is_builtin(*writer) || is_builtin(*reader) { C_SEDP } else { C_UNACKFRAG },
            _ => 0,
        };
    }
    if c == 0 { C_OTHER } else { c }
}

pub fn class_names(c: u32) -> String {
    let names = ["spdp", "sedp", "udata", "ufrag", "uhb", "uack", "ugap", "unackfrag", "other"];
    let mut v = vec![];
    for (i, n) in names.iter().enumerate() {
        if c & (1 << i) != 0 {
            v.push(*n);
        }
    }
    v.join("+")
}


/// Parameters of the serialized payload of every DATA submessage of a datagram that carries a PL_CDR parameter
/// list (discovery data): (writer entity id, sequence number, [(parameter id, value bytes)]). Little-endian encapsulations only
/// (what dust-dds sends). Used by C37 to see what was announced.
pub fn discovery_parameters(d: &[u8]) -> Vec<(u32, i64, Vec<(u16, Vec<u8>)>)> {
    let mut out = vec![];
    let p = parse(d);
    for (sub, (s, l)) in p.subs.iter().zip(p.spans.iter()) {
        let Sub::Data { writer, flags, sn, .. } = sub else { continue };
        let b = &d[*s + 4..(*s + *l).min(d.len())];
        if b.len() < 24 || flags & 1 == 0 {
            continue;
        }
        let o2i = u16::from_le_bytes([b[2], b[3]]) as usize;
        let mut off = 4 + o2i;
        let read_pl = |mut off: usize, b: &[u8]| -> (Vec<(u16, Vec<u8>)>, usize) {
            let mut v = vec![];
            while off + 4 <= b.len() {
                let id = u16::from_le_bytes([b[off], b[off + 1]]);
                let len = u16::from_le_bytes([b[off + 2], b[off + 3]]) as usize;
                off += 4;
                if id == 1 {
                    break;
                }
                if off + len > b.len() {
                    break;
                }
                v.push((id, b[off..off + len].to_vec()));
                off += len;
            }
            (v, off)
        };
        if flags & 2 != 0 {
            let (_, o) = read_pl(off, b);
            off = o;
        }
        if off + 4 > b.len() || !(b[off] == 0 && b[off + 1] == 3) {
            continue; // not PL_CDR_LE
        }
        let (params, _) = read_pl(off + 4, b);
        out.push((*writer, *sn, params));
    }
    out
}

//! Recorded history of a run: one record per client operation (invoke/return stamped with the
//! simulator's global step counter and simulated time) plus listener callbacks.

use crate::plan::{Op, Q};
use dust_dds::infrastructure::error::DdsError;
use std::cell::RefCell;

#[derive(Clone, Debug, PartialEq, Eq, PartialOrd, Ord, Hash)]
pub enum E {
    Error,
    Unsupported,
    BadParameter,
    PreconditionNotMet,
    OutOfResources,
    NotEnabled,
    ImmutablePolicy,
    InconsistentPolicy,
    AlreadyDeleted,
    Timeout,
    NoData,
    IllegalOperation,
    /// the harness' own timeout around a call (not a DDS result)
    SimTimeout,
}

impl From<DdsError> for E {
    fn from(e: DdsError) -> E {
        match e {
            DdsError::Error(_) => E::Error,
            DdsError::Unsupported => E::Unsupported,
            DdsError::BadParameter => E::BadParameter,
            DdsError::PreconditionNotMet(_) => E::PreconditionNotMet,
            DdsError::OutOfResources => E::OutOfResources,
            DdsError::NotEnabled => E::NotEnabled,
            DdsError::ImmutablePolicy => E::ImmutablePolicy,
            DdsError::InconsistentPolicy => E::InconsistentPolicy,
            DdsError::AlreadyDeleted => E::AlreadyDeleted,
            DdsError::Timeout => E::Timeout,
            DdsError::NoData => E::NoData,
            DdsError::IllegalOperation => E::IllegalOperation,
        }
    }
}

pub type Hd = [u8; 16];

#[derive(Clone, Debug, PartialEq)]
pub struct SampleRec {
    pub valid: bool,
    pub key: u8,
    pub seq: u32,
    pub x: i32,
    pub name: String,
    pub len: usize,
    pub body_ok: bool,
    /// true = READ
    pub read: bool,
    /// true = NEW
    pub new: bool,
    /// 0 alive 1 disposed 2 no writers
    pub ist: u8,
    pub dgc: i32,
    pub nwgc: i32,
    pub srank: i32,
    pub grank: i32,
    pub agrank: i32,
    /// absolute ns
    pub ts: Option<i64>,
    pub ih: Hd,
    pub ph: Hd,
}

#[derive(Clone, Debug, PartialEq, Default)]
pub struct MatchedSt {
    pub total: i32,
    pub total_change: i32,
    pub current: i32,
    pub current_change: i32,
    pub last: Hd,
}

#[derive(Clone, Debug, PartialEq, Default)]
pub struct IncompatSt {
    pub total: i32,
    pub change: i32,
    pub last_policy: i32,
    pub policies: Vec<(i32, i32)>,
}

#[derive(Clone, Debug, PartialEq, Default)]
pub struct CountSt {
    pub total: i32,
    pub change: i32,
    pub last: Hd,
    /// sample rejected reason 0 none 1 instances 2 samples 3 samples per instance
    pub reason: u8,
}

#[derive(Clone, Debug, PartialEq)]
pub enum Res {
    Pending,
    Skipped(&'static str),
    Unit(Result<(), E>),
    Samples(Result<Vec<SampleRec>, E>),
    OptHandle(Result<Option<Hd>, E>),
    Handles(Result<Vec<Hd>, E>),
    Handle(Hd),
    Matched(Result<MatchedSt, E>),
    Incompat(Result<IncompatSt, E>),
    Count(Result<CountSt, E>),
    Qos(Result<Q, E>),
    Bool(Result<bool, E>),
    /// wait-set result: indices (into the op's cond list) of returned conditions
    Conds(Result<Vec<usize>, E>),
    /// freeze-and-read check after wait_for_acknowledgments / wait_for_historical_data:
    /// call result, matched handles seen during the freeze, and per world-reader the seqs it holds
    AckCheck { res: Result<(), E>, matched: Vec<Hd>, held: Vec<(u32, Vec<u32>)> },
    Int(i64),
    Text(String),
    /// the API call panicked inside dust-dds (message @ location)
    Panic(String),
}

impl Res {
    pub fn is_ok(&self) -> bool {
        match self {
            Res::Unit(r) => r.is_ok(),
            Res::Samples(r) => r.is_ok(),
            Res::OptHandle(r) => r.is_ok(),
            Res::Handles(r) => r.is_ok(),
            Res::Matched(r) => r.is_ok(),
            Res::Incompat(r) => r.is_ok(),
            Res::Count(r) => r.is_ok(),
            Res::Qos(r) => r.is_ok(),
            Res::Bool(r) => r.is_ok(),
            Res::Conds(r) => r.is_ok(),
            Res::AckCheck { res, .. } => res.is_ok(),
            Res::Handle(_) | Res::Int(_) | Res::Text(_) => true,
            Res::Pending | Res::Skipped(_) | Res::Panic(_) => false,
        }
    }
    pub fn err(&self) -> Option<E> {
        match self {
            Res::Unit(Err(e)) => Some(e.clone()),
            Res::Samples(Err(e)) => Some(e.clone()),
            Res::OptHandle(Err(e)) => Some(e.clone()),
            Res::Handles(Err(e)) => Some(e.clone()),
            Res::Matched(Err(e)) => Some(e.clone()),
            Res::Incompat(Err(e)) => Some(e.clone()),
            Res::Count(Err(e)) => Some(e.clone()),
            Res::Qos(Err(e)) => Some(e.clone()),
            Res::Bool(Err(e)) => Some(e.clone()),
            Res::Conds(Err(e)) => Some(e.clone()),
            Res::AckCheck { res: Err(e), .. } => Some(e.clone()),
            _ => None,
        }
    }
}

#[derive(Clone, Debug)]
pub struct Rec {
    pub phase: usize,
    pub client: usize,
    pub idx: usize,
    pub op: Op,
    pub inv_step: u64,
    pub inv_t: u64,
    pub ret_step: u64,
    pub ret_t: u64,
    pub res: Res,
}

#[derive(Clone, Debug)]
pub struct Callback {
    pub step: u64,
    pub t: u64,
    /// "reader" "writer" "publisher" "subscriber" "participant" "topic": where the listener is installed
    pub level: &'static str,
    pub owner: u32,
    /// callback name, e.g. "on_data_available"
    pub what: &'static str,
    /// instance handle of the entity passed to the callback
    pub entity: Hd,
    pub total: i32,
    pub change: i32,
    /// sample-rejected: reason (0 none 1 instances 2 samples 3 samples per instance); incompatible qos: last policy id
    pub code: i32,
    /// sample-rejected / deadline: last instance handle; matched: last peer handle
    pub last: Hd,
    /// incompatible qos: (policy id, count)
    pub policies: Vec<(i32, i32)>,
}

#[derive(Default)]
pub struct Hist {
    pub recs: Vec<Rec>,
    pub callbacks: Vec<Callback>,
    pub marks: Vec<(String, u64, u64)>,
    /// per world reader id: everything any R / Drain op returned, in order
    pub reader_logs: std::collections::BTreeMap<u32, Vec<(u64, u64, SampleRec)>>,
    /// explicit source timestamps used by W ops (uid -> absolute ns)
    pub w_ts: std::collections::BTreeMap<u32, i64>,
    /// (step, t, participant, discovered set) at every change seen by a WatchDiscovered daemon, plus every poll time
    pub discovery_log: Vec<(u64, u64, u32, Vec<Hd>)>,
    pub discovery_polls: std::collections::BTreeMap<u32, Vec<u64>>,
}

thread_local! {
    pub static HIST: RefCell<Hist> = RefCell::new(Hist::default());
}

pub fn with_hist<R>(f: impl FnOnce(&mut Hist) -> R) -> R {
    let _sim = crate::alloc_count::exempt();
    HIST.with(|h| f(&mut h.borrow_mut()))
}

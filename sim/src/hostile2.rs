//! C06: structure-aware mutation of captured datagrams and crafted well-formed messages.

use crate::net::with_net;
use crate::plan::Mut;
use crate::world::World;
use std::rc::Rc;

pub fn mutate(_node: usize, class: u32, nth: u32, muts: &[Mut]) -> Option<Vec<u8>> {
    let mut bytes: Vec<u8> = with_net(|n| {
        let c: Vec<&crate::net::WireRec> = n.wire.iter().filter(|w| w.class & class != 0 && w.bytes.is_some() && w.src.is_some()).collect();
        if c.is_empty() {
            return None;
        }
        Some(c[nth as usize % c.len()].bytes.as_ref().unwrap().as_ref().clone())
    })?;
    let spans = crate::wire::parse(&bytes).spans;
    for m in muts {
        match m {
            Mut::Flip { bit } => {
                if !bytes.is_empty() {
                    let i = (*bit as usize / 8) % bytes.len();
                    bytes[i] ^= 1 << (bit % 8);
                }
            }
            Mut::Truncate { at } => {
                let n = (*at as usize) % (bytes.len() + 1);
                bytes.truncate(n);
            }
            Mut::SetU8 { off, v } => {
                if !bytes.is_empty() {
                    let i = *off as usize % bytes.len();
                    bytes[i] = *v;
                }
            }
            Mut::SetU16 { sub, off, v } => {
                if let Some((s, l)) = spans.get(*sub as usize % spans.len().max(1)) {
                    let i = s + 4 + (*off as usize % l.saturating_sub(5).max(1));
                    if i + 2 <= bytes.len() {
                        bytes[i..i + 2].copy_from_slice(&v.to_le_bytes());
                    }
                }
            }
            Mut::SetU32 { sub, off, v } => {
                if let Some((s, l)) = spans.get(*sub as usize % spans.len().max(1)) {
                    let i = s + 4 + (*off as usize % l.saturating_sub(7).max(1));
                    if i + 4 <= bytes.len() {
                        bytes[i..i + 4].copy_from_slice(&v.to_le_bytes());
                    }
                }
            }
            Mut::SubLen { sub, v } => {
                if let Some((s, _)) = spans.get(*sub as usize % spans.len().max(1)) {
                    if s + 4 <= bytes.len() {
                        bytes[s + 2..s + 4].copy_from_slice(&v.to_le_bytes());
                    }
                }
            }
            Mut::SubId { sub, v } => {
                if let Some((s, _)) = spans.get(*sub as usize % spans.len().max(1)) {
                    if *s < bytes.len() {
                        bytes[*s] = *v;
                    }
                }
            }
            Mut::FlipEndian { sub } => {
                if let Some((s, _)) = spans.get(*sub as usize % spans.len().max(1)) {
                    if s + 1 < bytes.len() {
                        bytes[s + 1] ^= 1;
                    }
                }
            }
        }
    }
    Some(bytes)
}

pub fn craft(_w: &Rc<World>, _node: usize, _kind: &str, _spoof_p: Option<u32>, _a: i64, _b: i64, _c: i64, _d: i64) -> Option<Vec<u8>> {
    None
}

//! C06: structure-aware mutation of captured datagrams and crafted well-formed messages.

use crate::net::with_net;
use crate::plan::Mut;
use crate::world::World;
use std::rc::Rc;

pub fn mutate(_node: usize, class: u32, nth: u32, muts: &[Mut]) -> Option<Vec<u8>> {
    let mut bytes: Vec<u8> = with_net(|n| {
        let c: Vec<&crate::net::WireRec> = n.wire.iter().filter(|w| w.class & class != 0 && w.bytes.is_some() && w.src.is_some()).collect();
        if c.is_empty() {
            return None;
        }
        Some(c[nth as usize % c.len()].bytes.as_ref().unwrap().as_ref().clone())
    })?;
    let spans = crate::wire::parse(&bytes).spans;
    for m in muts {
        match m {
            Mut::Flip { bit } => {
                if !bytes.is_empty() {
                    let i = (*bit as usize / 8) % bytes.len();
                    bytes[i] ^= 1 << (bit % 8);
                }
            }
            Mut::Truncate { at } => {
                let n = (*at as usize) % (bytes.len() + 1);
                bytes.truncate(n);
            }
            Mut::SetU8 { off, v } => {
                if !bytes.is_empty() {
                    let i = *off as usize % bytes.len();
                    bytes[i] = *v;
                }
            }
            Mut::SetU16 { sub, off, v } => {
                if let Some((s, l)) = spans.get(*sub as usize % spans.len().max(1)) {
                    let i = s + 4 + (*off as usize % l.saturating_sub(5).max(1));
                    if i + 2 <= bytes.len() {
                        bytes[i..i + 2].copy_from_slice(&v.to_le_bytes());
                    }
                }
            }
            Mut::SetU32 { sub, off, v } => {
                if let Some((s, l)) = spans.get(*sub as usize % spans.len().max(1)) {
                    let i = s + 4 + (*off as usize % l.saturating_sub(7).max(1));
                    if i + 4 <= bytes.len() {
                        bytes[i..i + 4].copy_from_slice(&v.to_le_bytes());
                    }
                }
            }
            Mut::SubLen { sub, v } => {
                if let Some((s, _)) = spans.get(*sub as usize % spans.len().max(1)) {
                    if s + 4 <= bytes.len() {
                        bytes[s + 2..s + 4].copy_from_slice(&v.to_le_bytes());
                    }
                }
            }
            Mut::SubId { sub, v } => {
                if let Some((s, _)) = spans.get(*sub as usize % spans.len().max(1)) {
                    if *s < bytes.len() {
                        bytes[*s] = *v;
                    }
                }
            }
            Mut::FlipEndian { sub } => {
                if let Some((s, _)) = spans.get(*sub as usize % spans.len().max(1)) {
                    if s + 1 < bytes.len() {
                        bytes[s + 1] ^= 1;
                    }
                }
            }
        }
    }
    Some(bytes)
}

/// A captured DATA re-sent as the next change of its writer, with a mutated payload
pub fn fresh(class: u32, nth: u32, sn_off: i64, muts: &[Mut]) -> Option<Vec<u8>> {
    use crate::wire::Sub;
    let (mut bytes, next_sn, span, writer) = with_net(|n| {
        let c: Vec<&crate::net::WireRec> = n
            .wire
            .iter()
            .filter(|w| w.class & class != 0 && w.bytes.is_some() && w.src.is_some() && w.parsed.subs.iter().any(|s| matches!(s, Sub::Data { .. })))
            .collect();
        if c.is_empty() {
            return None;
        }
        let rec = c[nth as usize % c.len()];
        let (idx, writer) = rec.parsed.subs.iter().enumerate().find_map(|(i, s)| if let Sub::Data { writer, .. } = s { Some((i, *writer)) } else { None })?;
        let prefix = rec.parsed.src_prefix;
        let mut max_sn = 0i64;
        for w in n.wire.iter().filter(|w| w.parsed.src_prefix == prefix) {
            for s in &w.parsed.subs {
                match s {
                    Sub::Data { writer: x, sn, .. } | Sub::DataFrag { writer: x, sn, .. } if *x == writer && *sn < (1 << 40) => max_sn = max_sn.max(*sn),
                    Sub::Heartbeat { writer: x, last, .. } if *x == writer && *last < (1 << 40) => max_sn = max_sn.max(*last),
                    _ => {}
                }
            }
        }
        Some((rec.bytes.as_ref().unwrap().as_ref().clone(), max_sn + 1 + sn_off, rec.parsed.spans[idx], writer))
    })?;
    let _ = writer;
    let (s, l) = span;
    if s + 24 > bytes.len() {
        return None;
    }
    let le = bytes[s + 1] & 1 == 1;
    let (hi, lo) = ((next_sn >> 32) as i32, next_sn as u32);
    if le {
        bytes[s + 16..s + 20].copy_from_slice(&hi.to_le_bytes());
        bytes[s + 20..s + 24].copy_from_slice(&lo.to_le_bytes());
    } else {
        bytes[s + 16..s + 20].copy_from_slice(&hi.to_be_bytes());
        bytes[s + 20..s + 24].copy_from_slice(&lo.to_be_bytes());
    }
    let o2i = if le { u16::from_le_bytes([bytes[s + 6], bytes[s + 7]]) } else { u16::from_be_bytes([bytes[s + 6], bytes[s + 7]]) } as usize;
    let pstart = (s + 4 + 4 + o2i).min(s + l);
    let plen = (s + l).saturating_sub(pstart);
    if plen == 0 {
        return Some(bytes);
    }
    for m in muts {
        match m {
            Mut::Flip { bit } => {
                let i = pstart + (*bit as usize / 8) % plen;
                if i < bytes.len() {
                    bytes[i] ^= 1 << (bit % 8);
                }
            }
            Mut::SetU8 { off, v } => {
                let i = pstart + *off as usize % plen;
                if i < bytes.len() {
                    bytes[i] = *v;
                }
            }
            Mut::SetU16 { off, v, .. } => {
                let i = pstart + (*off as usize * 2) % plen;
                if i + 2 <= bytes.len() {
                    bytes[i..i + 2].copy_from_slice(&v.to_le_bytes());
                }
            }
            Mut::SetU32 { off, v, .. } => {
                let i = pstart + (*off as usize) % plen / 4 * 4;
                if i + 4 <= bytes.len() {
                    bytes[i..i + 4].copy_from_slice(&v.to_le_bytes());
                }
            }
            Mut::Truncate { at } => {
                // the DATA submessage becomes the last one and extends to the end of the message
                let keep = pstart + *at as usize % (plen + 1);
                if keep <= bytes.len() && s + l >= bytes.len().min(s + l) {
                    bytes.truncate(keep.max(s + 24));
                    bytes[s + 2] = 0;
                    bytes[s + 3] = 0;
                }
            }
            _ => {}
        }
    }
    Some(bytes)
}

fn sn_bytes(sn: i64) -> Vec<u8> {
    let mut v = ((sn >> 32) as i32).to_le_bytes().to_vec();
    v.extend_from_slice(&(sn as u32).to_le_bytes());
    v
}
fn eid(e: u32) -> [u8; 4] {
    e.to_be_bytes()
}

/// well-formed RTPS messages with arbitrary field values; `spoof_p` makes them carry the GUID prefix of
/// a real (already discovered) participant
pub fn craft(w: &Rc<World>, _node: usize, kind: &str, spoof_p: Option<u32>, a: i64, b: i64, c: i64, d: i64) -> Option<Vec<u8>> {
    use crate::hostile::{rtps_header, submessage};
    let prefix: [u8; 12] = match spoof_p {
        Some(p) => {
            let h = w.st.borrow().participants.get(&p).map(|x| crate::world::hd(x.0.get_instance_handle()))?;
            h[..12].try_into().unwrap()
        }
        None => crate::hostile::foreign_prefix(99),
    };
    let mut m = rtps_header(&prefix);
    let writer = eid(d as u32);
    // a == -2: the sequence number the (forged) writer would use next, from the captured traffic
    let a = if a == -2 {
        use crate::wire::Sub;
        with_net(|n| {
            let mut max_sn = 0i64;
            for w in n.wire.iter().filter(|w| w.parsed.src_prefix == prefix) {
                for s in &w.parsed.subs {
                    match s {
                        Sub::Data { writer: x, sn, .. } | Sub::DataFrag { writer: x, sn, .. } if *x == d as u32 && *sn < (1 << 40) => max_sn = max_sn.max(*sn),
                        Sub::Heartbeat { writer: x, last, .. } if *x == d as u32 && *last < (1 << 40) => max_sn = max_sn.max(*last),
                        _ => {}
                    }
                }
            }
            max_sn + 1
        })
    } else {
        a
    };
    let reader = [0u8; 4];
    let bitmap = |nbits: u32, fill: u32| -> Vec<u8> {
        let mut v = nbits.to_le_bytes().to_vec();
        let words = (nbits.min(100_000) as usize).div_ceil(32);
        for _ in 0..words.min(16) {
            v.extend_from_slice(&fill.to_le_bytes());
        }
        v
    };
    match kind {
        "gap" => {
            let mut body = reader.to_vec();
            body.extend(writer);
            body.extend(sn_bytes(a));
            body.extend(sn_bytes(b));
            body.extend(bitmap(c as u32, 0xFFFF_FFFF));
            m.extend(submessage(0x08, 0x01, &body));
        }
        "heartbeat" => {
            let mut body = reader.to_vec();
            body.extend(writer);
            body.extend(sn_bytes(a));
            body.extend(sn_bytes(b));
            body.extend((c as i32).to_le_bytes());
            m.extend(submessage(0x07, 0x01, &body));
        }
        "acknack" => {
            // to a writer: reader id is the sender's
            let mut body = eid(0x0000_0007).to_vec();
            body.extend(writer);
            body.extend(sn_bytes(a));
            body.extend(bitmap(b as u32, 0xAAAA_AAAA));
            body.extend((c as i32).to_le_bytes());
            m.extend(submessage(0x06, 0x01, &body));
        }
        "nackfrag" => {
            let mut body = eid(0x0000_0007).to_vec();
            body.extend(writer);
            body.extend(sn_bytes(a));
            body.extend((b as u32).to_le_bytes());
            body.extend(bitmap(c as u32, 0xFFFF_FFFF));
            body.extend(1i32.to_le_bytes());
            m.extend(submessage(0x12, 0x01, &body));
        }
        "datafrag" => {
            // a: sn, b: fragment starting num, c: (fragments in submessage << 16) | fragment size, d>>32: sample size
            let mut body = vec![0u8, 0, 28, 0];
            body.extend(reader);
            body.extend(eid(d as u32));
            body.extend(sn_bytes(a));
            body.extend((b as u32).to_le_bytes());
            body.extend(((c >> 16) as u16).to_le_bytes());
            body.extend((c as u16).to_le_bytes());
            body.extend(((d >> 32) as u32).to_le_bytes());
            body.extend(vec![0xAB; (c as u16 as usize).min(2000)]);
            m.extend(submessage(0x16, 0x01, &body));
        }
        "data" => {
            // a: sn, b: payload length, c: encapsulation id
            let mut body = vec![0u8, 0, 16, 0];
            body.extend(reader);
            body.extend(writer);
            body.extend(sn_bytes(a));
            body.extend([(c >> 8) as u8, c as u8, 0, 0]);
            body.extend(vec![(a as u8).wrapping_mul(31); (b as usize).min(4000)]);
            m.extend(submessage(0x15, 0x05, &body));
        }
        "heartbeatfrag" => {
            let mut body = reader.to_vec();
            body.extend(writer);
            body.extend(sn_bytes(a));
            body.extend((b as u32).to_le_bytes());
            body.extend((c as i32).to_le_bytes());
            m.extend(submessage(0x13, 0x01, &body));
        }
        "sub" => {
            // arbitrary submessage id a, flags b, body of c bytes
            m.extend(submessage(a as u8, b as u8, &vec![d as u8; (c as usize).min(3000)]));
        }
        "info" => {
            // well-formed interpreter submessages (INFO_TS, INFO_SRC, INFO_DST, INFO_REPLY, INFO_REPLY_IP4, PAD) with
            // arbitrary content, followed by a HEARTBEAT so that the receiver state they set is used
            let loc = |kind: i32, port: u32, last: u8| -> Vec<u8> {
                let mut v = kind.to_le_bytes().to_vec();
                v.extend(port.to_le_bytes());
                v.extend([0u8; 15]);
                v.push(last);
                v
            };
            match a.rem_euclid(7) {
                0 => {
                    // INFO_REPLY: unicast list of b%3 locators, optional multicast list
                    let mut body = ((b.rem_euclid(3)) as u32).to_le_bytes().to_vec();
                    for i in 0..b.rem_euclid(3) {
                        body.extend(loc(c as i32, d as u32, i as u8));
                    }
                    let multicast = c & 1 == 1;
                    if multicast {
                        body.extend(1u32.to_le_bytes());
                        body.extend(loc(1, 7400, 239));
                    }
                    m.extend(submessage(0x0f, if multicast { 0x03 } else { 0x01 }, &body));
                }
                1 => {
                    // INFO_REPLY_IP4
                    let mut body = (c as u32).to_le_bytes().to_vec();
                    body.extend((d as u32).to_le_bytes());
                    m.extend(submessage(0x0d, 0x01, &body));
                }
                2 => {
                    // INFO_SRC: protocol version, vendor and prefix from the arguments
                    let mut body = vec![0u8; 4];
                    body.extend([(b & 0xff) as u8, (c & 0xff) as u8, 1, 20]);
                    body.extend(if c & 1 == 0 { prefix } else { crate::hostile::foreign_prefix(97) });
                    m.extend(submessage(0x0c, 0x01, &body));
                }
                3 => {
                    // INFO_TS with extreme time / invalidate flag
                    if b & 1 == 1 {
                        m.extend(submessage(0x09, 0x03, &[]));
                    } else {
                        let mut body = (c as i32).to_le_bytes().to_vec();
                        body.extend((d as u32).to_le_bytes());
                        m.extend(submessage(0x09, 0x01, &body));
                    }
                }
                4 => {
                    let mut body = prefix.to_vec();
                    if b & 1 == 1 {
                        body = crate::hostile::foreign_prefix(96).to_vec();
                    }
                    m.extend(submessage(0x0e, 0x01, &body));
                }
                5 => m.extend(submessage(0x01, 0x01, &vec![0u8; (c.rem_euclid(64)) as usize])),
                _ => m.extend(submessage((b & 0xff) as u8, 0x01, &vec![0u8; (c.rem_euclid(64)) as usize * 4])),
            }
            let mut hb = reader.to_vec();
            hb.extend(writer);
            hb.extend(sn_bytes(1));
            hb.extend(sn_bytes(c.rem_euclid(100)));
            hb.extend((d as u32).to_le_bytes());
            m.extend(submessage(0x07, 0x01, &hb));
        }
        "spdp" => {
            // a foreign participant that announces discovery readers at locators of an arbitrary kind / port:
            // the receiver will try to send its endpoint announcements there
            return Some(crate::hostile::spdp_datagram_ex(90 + (d.rem_euclid(5)) as u32, 1 + c.rem_euclid(3), Some(0), None, 20_000_000_000, a as i32, b as u32, 0x0000_0c3f));
        }
        "plist" => {
            // a discovery DATA whose parameter list has a parameter with a hostile length / string length
            let mut pl: Vec<u8> = vec![0x00, 0x03, 0x00, 0x00];
            pl.extend((a as u16).to_le_bytes()); // parameter id
            pl.extend((b as u16).to_le_bytes()); // declared length
            pl.extend((c as u32).to_le_bytes()); // e.g. a string / sequence length
            pl.extend(vec![0x41; 12]);
            pl.extend([0x01, 0x00, 0x00, 0x00]);
            let mut body = vec![0u8, 0, 16, 0];
            body.extend(reader);
            body.extend(writer);
            body.extend(sn_bytes(1));
            body.extend(pl);
            m.extend(submessage(0x15, 0x05, &body));
        }
        _ => return None,
    }
    Some(m)
}

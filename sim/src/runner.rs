//! Execute one Plan in this process (must be a fresh address space) and collect the outcome.

use crate::core::{self, with_core, PanicRec, Stop};
use crate::net;
use crate::plan::Plan;
use crate::world::{run_script, World};
use std::collections::BTreeMap;
use std::rc::Rc;

pub struct Outcome {
    pub phase_stops: Vec<Stop>,
    pub completed_phases: usize,
    pub fp: u64,
    pub steps: u64,
    pub sim_ns: u64,
    pub panics: Vec<PanicRec>,
    pub stats: BTreeMap<String, u64>,
    pub trace: Option<Vec<String>>,
    pub world: Rc<World>,
}

pub fn execute(plan: &Plan, trace: bool) -> Outcome {
    core::init(plan.time.clone(), plan.sched.clone(), trace);
    net::init(plan.net.clone());
    let world = World::new();
    let max_now = plan.max_sim_ms * 1_000_000;
    let mut phase_stops = vec![];
    let mut completed = 0;
    for (pi, ph) in plan.phases.iter().enumerate() {
        let mut tasks = vec![];
        for (ci, cl) in ph.clients.iter().enumerate() {
            let id = core::spawn_client(run_script(world.clone(), pi, ci, cl.ops.clone()));
            tasks.push((id, cl.daemon));
        }
        let stop = core::run(plan.max_steps, max_now, || {
            let worker_dead = with_core(|c| c.panics.iter().any(|p| p.class == core::Class::Worker));
            worker_dead || tasks.iter().filter(|t| !t.1).all(|t| core::task_done(t.0))
        });
        // let daemons finish the call they are in (cancelling an in-flight take would lose its samples)
        if stop == Stop::Cond {
            world.stop_daemons.set(true);
            let _ = core::run(plan.max_steps, max_now, || tasks.iter().all(|t| core::task_done(t.0)) || with_core(|c| c.panics.iter().any(|p| p.class == core::Class::Worker)));
            world.stop_daemons.set(false);
        }
        for (id, _) in &tasks {
            if !core::task_done(*id) {
                core::cancel_task(*id);
            }
        }
        phase_stops.push(stop);
        let worker_dead = with_core(|c| c.panics.iter().any(|p| p.class == core::Class::Worker));
        if stop != Stop::Cond || worker_dead {
            break;
        }
        completed += 1;
    }
    let (fp, steps, sim_ns, panics, mut stats, tr, sc) = with_core(|c| (c.fp.0, c.step, c.now, c.panics.clone(), c.stats.clone(), c.trace.take(), c.sched_counts));
    net::with_net(|n| {
        for (k, v) in &n.stats {
            stats.insert(format!("net.{}", k), *v);
        }
    });
    stats.insert("polls.worker".into(), sc[0]);
    stats.insert("polls.listener".into(), sc[1]);
    stats.insert("polls.client".into(), sc[2]);
    stats.insert("polls.delivery".into(), sc[3]);
    Outcome { phase_stops, completed_phases: completed, fp, steps, sim_ns, panics, stats, trace: tr, world }
}

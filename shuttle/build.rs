//! Copies the dust-dds sources under test out of /repo's working tree into OUT_DIR. The std-runtime files get
//! `std::` paths redirected to `crate::simstd::` (scheduler-controlled threads, channels with timeouts and a
//! virtual clock); nothing else is changed. The channel files are used verbatim.
use std::{env, fs, path::Path};

/// `std::` (as a path root, not as the tail of another identifier) becomes `crate::simstd::`
fn redirect_std(src: &str) -> String {
    let mut out = String::with_capacity(src.len() + 1024);
    let b = src.as_bytes();
    let mut i = 0;
    while i < b.len() {
        if src[i..].starts_with("std::") && (i == 0 || !(b[i - 1].is_ascii_alphanumeric() || b[i - 1] == b'_')) {
            out.push_str("crate::simstd::");
            i += 5;
        } else {
            let ch = src[i..].chars().next().unwrap();
            out.push(ch);
            i += ch.len_utf8();
        }
    }
    out
}

fn main() {
    let repo = env::var("DUST_REPO").unwrap_or_else(|_| "/repo".into());
    let out = env::var("OUT_DIR").unwrap();
    for f in ["oneshot.rs", "mpsc.rs", "notification.rs"] {
        let p = format!("{repo}/dds/src/dcps/channels/{f}");
        println!("cargo:rerun-if-changed={p}");
        let s = fs::read_to_string(&p).expect("channel source");
        fs::write(Path::new(&out).join(format!("chan_{f}")), s).unwrap();
    }
    for f in ["timer.rs", "executor.rs"] {
        let p = format!("{repo}/dds/src/std_runtime/{f}");
        println!("cargo:rerun-if-changed={p}");
        let mut s = fs::read_to_string(&p).expect("std_runtime source");
        s = redirect_std(&s);
        // the unit tests of the file are not part of what is simulated
        if let Some(i) = s.find("#[cfg(test)]") {
            s.truncate(i);
        }
        if f == "executor.rs" {
            // A parked executor thread is reaped by process exit in a real program; under the simulator every
            // thread has to finish, so the harness needs a way to let it observe the disconnected channel.
            s.push_str("\npub fn verif_shutdown(e: Executor) {\n    let t = e.executor_thread_handle.thread().clone();\n    drop(e);\n    t.unpark();\n}\n");
        }
        if f == "timer.rs" {
            // lets the harness wait until the timer thread has seen the disconnected channel and exited
            s.push_str("\npub fn verif_join(d: TimerDriver) {\n    let TimerDriver { inner, _timer_thread_join_handle } = d;\n    drop(inner);\n    _timer_thread_join_handle.join().unwrap();\n}\n");
        }
        fs::write(Path::new(&out).join(format!("rt_{f}")), s).unwrap();
    }
    println!("cargo:rerun-if-env-changed=DUST_REPO");
}

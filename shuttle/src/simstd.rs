//! Scheduler-controlled replacement for the parts of `std` that dust-dds' std runtime uses.
//! Threads, mutexes, atomics, park/unpark come from shuttle. Shuttle does not model time, so the clock
//! (`time::Instant`) and channels with timed receive (`sync::mpsc`) are written here on top of shuttle's
//! Mutex/Condvar: time is virtual, advances a little at every reading, and jumps to the earliest deadline of a
//! timed waiter whenever the simulator schedules the "time" thread — which can be before other runnable threads
//! get to run, i.e. threads may be arbitrarily slow relative to the clock, as on a loaded machine.

pub use std::{cmp, collections, fmt, future, io, mem, pin, task};

pub mod time {
    pub use std::time::Duration;
    use std::ops::{Add, Sub};

    /// virtual monotonic clock, nanoseconds since the start of the execution
    #[derive(Clone, Copy, Debug, PartialEq, Eq, PartialOrd, Ord, Hash)]
    pub struct Instant(pub u64);

    impl Instant {
        pub fn now() -> Instant {
            Instant(super::clock::read())
        }
        pub fn checked_add(&self, d: Duration) -> Option<Instant> {
            let ns: u64 = d.as_nanos().try_into().ok()?;
            self.0.checked_add(ns).map(Instant)
        }
        pub fn duration_since(&self, earlier: Instant) -> Duration {
            Duration::from_nanos(self.0.saturating_sub(earlier.0))
        }
        pub fn elapsed(&self) -> Duration {
            Instant::now().duration_since(*self)
        }
    }
    impl Add<Duration> for Instant {
        type Output = Instant;
        fn add(self, d: Duration) -> Instant {
            self.checked_add(d).expect("overflow when adding duration to instant")
        }
    }
    impl Sub<Instant> for Instant {
        type Output = Duration;
        fn sub(self, o: Instant) -> Duration {
            self.duration_since(o)
        }
    }
}

pub mod clock {
    use shuttle::sync::{Condvar, Mutex};
    pub fn trace(f: impl FnOnce() -> String) {
        static ON: std::sync::OnceLock<bool> = std::sync::OnceLock::new();
        if *ON.get_or_init(|| std::env::var("VERIF_TRACE").is_ok()) {
            eprintln!("[{:?}] {}", shuttle::thread::current().name(), f());
        }
    }
    use std::sync::Arc;

    pub struct Waiter {
        pub deadline: u64,
        pub id: u64,
        /// takes the lock the waiter sleeps under and notifies it
        pub wake: Box<dyn Fn() + Send>,
    }
    pub struct State {
        pub now: u64,
        pub waiters: Vec<Waiter>,
        pub next_id: u64,
        pub stop: bool,
        pub jumps: u64,
        pub reads: u64,
        pub tick: u64,
    }
    pub struct Svc {
        pub st: Mutex<State>,
        pub cv: Condvar,
    }
    shuttle::lazy_static! {
        pub static ref SVC: Arc<Svc> = Arc::new(Svc {
            st: Mutex::new(State { now: 1_000_000, waiters: vec![], next_id: 0, stop: false, jumps: 0, reads: 0, tick: 1_000 }),
            cv: Condvar::new(),
        });
    }
    /// every reading costs a little time (taking the lock is a scheduling point)
    pub fn read() -> u64 {
        critical_section::probe(2);
        let mut s = SVC.st.lock().unwrap();
        s.reads += 1;
        s.now += s.tick;
        s.now
    }
    pub fn tick() -> u64 {
        SVC.st.lock().unwrap().tick
    }
    pub fn set_tick(ns: u64) {
        SVC.st.lock().unwrap().tick = ns;
    }
    pub fn register(deadline: u64, wake: Box<dyn Fn() + Send>) -> u64 {
        let mut s = SVC.st.lock().unwrap();
        let id = s.next_id;
        s.next_id += 1;
        s.waiters.push(Waiter { deadline, id, wake });
        drop(s);
        SVC.cv.notify_all();
        id
    }
    pub fn unregister(id: u64) {
        let mut s = SVC.st.lock().unwrap();
        s.waiters.retain(|w| w.id != id);
    }
    /// body of the time thread: while somebody waits with a deadline, jump the clock there and wake them
    pub fn run_time_thread() {
        loop {
            let mut s = SVC.st.lock().unwrap();
            loop {
                if s.stop {
                    return;
                }
                if !s.waiters.is_empty() {
                    break;
                }
                s = SVC.cv.wait(s).unwrap();
            }
            let i = (0..s.waiters.len()).min_by_key(|&i| (s.waiters[i].deadline, s.waiters[i].id)).unwrap();
            let w = s.waiters.remove(i);
            if s.now <= w.deadline {
                s.now = w.deadline + 1;
            }
            s.jumps += 1;
            critical_section::probe(7);
            trace(|| format!("time jumps to {} for waiter {} ({} left)", s.now, w.id, s.waiters.len()));
            drop(s);
            (w.wake)();
        }
    }
    pub fn stop() {
        SVC.st.lock().unwrap().stop = true;
        SVC.cv.notify_all();
    }
    pub fn stats() -> (u64, u64, u64) {
        let s = SVC.st.lock().unwrap();
        (s.now, s.jumps, s.reads)
    }
}

/// std::thread on shuttle threads. park/unpark are written here (token + condvar) instead of using shuttle's:
/// shuttle offers a parked thread for a spurious wake-up at every scheduling decision, which turns every
/// `loop { poll; park }` into a busy loop that floods the timer thread and starves the run. Spurious returns
/// from park stay possible, but rare (1 in 16 parks).
pub mod thread {
    use shuttle::rand::Rng;
    use shuttle::sync::{Condvar, Mutex};
    pub use shuttle::thread::{sleep, yield_now, ThreadId};
    use std::sync::Arc;

    pub struct Tok {
        m: Mutex<bool>,
        cv: Condvar,
    }
    fn new_tok() -> Arc<Tok> {
        Arc::new(Tok { m: Mutex::new(false), cv: Condvar::new() })
    }
    shuttle::thread_local! {
        static TOK: std::cell::RefCell<Option<Arc<Tok>>> = std::cell::RefCell::new(None);
    }
    fn my_tok() -> Arc<Tok> {
        TOK.with(|t| t.borrow_mut().get_or_insert_with(new_tok).clone())
    }

    #[derive(Clone)]
    pub struct Thread {
        inner: shuttle::thread::Thread,
        tok: Arc<Tok>,
    }
    impl std::fmt::Debug for Thread {
        fn fmt(&self, f: &mut std::fmt::Formatter<'_>) -> std::fmt::Result {
            write!(f, "Thread({:?})", self.inner.name())
        }
    }
    impl Thread {
        pub fn unpark(&self) {
            critical_section::probe(6);
            *self.tok.m.lock().unwrap() = true;
            self.tok.cv.notify_all();
        }
        pub fn name(&self) -> Option<&str> {
            self.inner.name()
        }
        pub fn id(&self) -> ThreadId {
            self.inner.id()
        }
    }
    pub fn current() -> Thread {
        Thread { inner: shuttle::thread::current(), tok: my_tok() }
    }
    /// spurious returns from park can be switched off by a scenario that uses a completed sleep as a
    /// synchronisation point with the timer thread (plain atomic: set at the start of every execution)
    pub static SPURIOUS: std::sync::atomic::AtomicBool = std::sync::atomic::AtomicBool::new(true);
    pub fn park() {
        critical_section::probe(5);
        let tok = my_tok();
        let mut g = tok.m.lock().unwrap();
        if !*g && SPURIOUS.load(std::sync::atomic::Ordering::Relaxed) && shuttle::rand::thread_rng().gen_ratio(1, 16) {
            return; // spurious wake-up
        }
        while !*g {
            g = tok.cv.wait(g).unwrap();
        }
        *g = false;
    }

    pub struct JoinHandle<T> {
        inner: shuttle::thread::JoinHandle<T>,
        thread: Thread,
    }
    impl<T> JoinHandle<T> {
        pub fn join(self) -> std::thread::Result<T> {
            self.inner.join()
        }
        pub fn thread(&self) -> &Thread {
            &self.thread
        }
    }
    #[derive(Default, Debug)]
    pub struct Builder {
        name: Option<String>,
    }
    impl Builder {
        pub fn new() -> Self {
            Builder { name: None }
        }
        pub fn name(mut self, name: String) -> Self {
            self.name = Some(name);
            self
        }
        pub fn spawn<F, T>(self, f: F) -> std::io::Result<JoinHandle<T>>
        where
            F: FnOnce() -> T + Send + 'static,
            T: Send + 'static,
        {
            let tok = new_tok();
            let t2 = tok.clone();
            let mut b = shuttle::thread::Builder::new();
            if let Some(n) = self.name {
                b = b.name(n);
            }
            let inner = b.spawn(move || {
                TOK.with(|t| *t.borrow_mut() = Some(t2));
                f()
            })?;
            let thread = Thread { inner: inner.thread().clone(), tok };
            Ok(JoinHandle { inner, thread })
        }
    }
    pub fn spawn<F, T>(f: F) -> JoinHandle<T>
    where
        F: FnOnce() -> T + Send + 'static,
        T: Send + 'static,
    {
        Builder::new().spawn(f).expect("spawn")
    }
}

pub mod sync {
    pub use shuttle::sync::{Condvar, Mutex, MutexGuard};
    pub use std::sync::Arc;
    pub mod atomic {
        pub use shuttle::sync::atomic::*;
    }

    /// std::sync::mpsc with a receive timeout that fires (virtual clock); semantics follow std's documentation
    pub mod mpsc {
        use super::super::clock;
        use shuttle::sync::{Condvar, Mutex};
        use std::collections::VecDeque;
        use std::sync::Arc;
        use std::time::Duration;

        #[derive(Debug, PartialEq, Eq, Clone, Copy)]
        pub enum RecvTimeoutError {
            Timeout,
            Disconnected,
        }
        #[derive(Debug, PartialEq, Eq, Clone, Copy)]
        pub enum TryRecvError {
            Empty,
            Disconnected,
        }
        #[derive(Debug, PartialEq, Eq, Clone, Copy)]
        pub struct RecvError;
        pub struct SendError<T>(pub T);
        impl<T> std::fmt::Debug for SendError<T> {
            fn fmt(&self, f: &mut std::fmt::Formatter<'_>) -> std::fmt::Result {
                f.write_str("SendError { .. }")
            }
        }

        struct St<T> {
            q: VecDeque<T>,
            senders: usize,
            receiver_alive: bool,
            bound: Option<usize>,
        }
        struct Chan<T> {
            st: Mutex<St<T>>,
            /// receiver waits here
            cv_recv: Condvar,
            /// bounded senders wait here
            cv_send: Condvar,
        }

        pub struct Sender<T> {
            c: Arc<Chan<T>>,
        }
        pub struct SyncSender<T> {
            c: Arc<Chan<T>>,
        }
        pub struct Receiver<T> {
            c: Arc<Chan<T>>,
        }
        impl<T> std::fmt::Debug for Sender<T> {
            fn fmt(&self, f: &mut std::fmt::Formatter<'_>) -> std::fmt::Result {
                f.write_str("Sender { .. }")
            }
        }
        impl<T> std::fmt::Debug for SyncSender<T> {
            fn fmt(&self, f: &mut std::fmt::Formatter<'_>) -> std::fmt::Result {
                f.write_str("SyncSender { .. }")
            }
        }
        impl<T> std::fmt::Debug for Receiver<T> {
            fn fmt(&self, f: &mut std::fmt::Formatter<'_>) -> std::fmt::Result {
                f.write_str("Receiver { .. }")
            }
        }

        fn mk<T>(bound: Option<usize>) -> Arc<Chan<T>> {
            Arc::new(Chan { st: Mutex::new(St { q: VecDeque::new(), senders: 1, receiver_alive: true, bound }), cv_recv: Condvar::new(), cv_send: Condvar::new() })
        }
        pub fn channel<T>() -> (Sender<T>, Receiver<T>) {
            let c = mk(None);
            (Sender { c: c.clone() }, Receiver { c })
        }
        pub fn sync_channel<T>(bound: usize) -> (SyncSender<T>, Receiver<T>) {
            let c = mk(Some(bound));
            (SyncSender { c: c.clone() }, Receiver { c })
        }

        fn send_impl<T>(c: &Arc<Chan<T>>, t: T) -> Result<(), SendError<T>> {
            let mut s = c.st.lock().unwrap();
            loop {
                if !s.receiver_alive {
                    return Err(SendError(t));
                }
                match s.bound {
                    Some(b) if s.q.len() >= b.max(1) => s = c.cv_send.wait(s).unwrap(),
                    _ => break,
                }
            }
            s.q.push_back(t);
            critical_section::probe(3);
            clock::trace(|| format!("send (queue {})", s.q.len()));
            drop(s);
            c.cv_recv.notify_all();
            Ok(())
        }
        impl<T> Sender<T> {
            pub fn send(&self, t: T) -> Result<(), SendError<T>> {
                send_impl(&self.c, t)
            }
        }
        impl<T> SyncSender<T> {
            pub fn send(&self, t: T) -> Result<(), SendError<T>> {
                send_impl(&self.c, t)
            }
        }
        impl<T> Clone for Sender<T> {
            fn clone(&self) -> Self {
                self.c.st.lock().unwrap().senders += 1;
                Sender { c: self.c.clone() }
            }
        }
        impl<T> Clone for SyncSender<T> {
            fn clone(&self) -> Self {
                self.c.st.lock().unwrap().senders += 1;
                SyncSender { c: self.c.clone() }
            }
        }
        fn drop_sender<T>(c: &Arc<Chan<T>>) {
            let mut s = c.st.lock().unwrap();
            s.senders -= 1;
            let last = s.senders == 0;
            drop(s);
            if last {
                c.cv_recv.notify_all();
            }
        }
        impl<T> Drop for Sender<T> {
            fn drop(&mut self) {
                drop_sender(&self.c)
            }
        }
        impl<T> Drop for SyncSender<T> {
            fn drop(&mut self) {
                drop_sender(&self.c)
            }
        }
        impl<T> Drop for Receiver<T> {
            fn drop(&mut self) {
                let mut s = self.c.st.lock().unwrap();
                s.receiver_alive = false;
                // queued values are dropped with the channel; they may own senders of this or other channels
                let q = std::mem::take(&mut s.q);
                drop(s);
                drop(q);
                self.c.cv_send.notify_all();
            }
        }

        impl<T: Send + 'static> Receiver<T> {
            pub fn try_recv(&self) -> Result<T, TryRecvError> {
                let mut s = self.c.st.lock().unwrap();
                if let Some(v) = s.q.pop_front() {
                    drop(s);
                    self.c.cv_send.notify_all();
                    return Ok(v);
                }
                if s.senders == 0 { Err(TryRecvError::Disconnected) } else { Err(TryRecvError::Empty) }
            }
            pub fn recv(&self) -> Result<T, RecvError> {
                let mut s = self.c.st.lock().unwrap();
                loop {
                    clock::trace(|| format!("recv loop (queue {}, senders {})", s.q.len(), s.senders));
                    if let Some(v) = s.q.pop_front() {
                        drop(s);
                        self.c.cv_send.notify_all();
                        return Ok(v);
                    }
                    if s.senders == 0 {
                        return Err(RecvError);
                    }
                    s = self.c.cv_recv.wait(s).unwrap();
                }
            }
            pub fn recv_timeout(&self, timeout: Duration) -> Result<T, RecvTimeoutError> {
                let start = clock::read();
                let deadline = start.saturating_add(timeout.as_nanos().min(u64::MAX as u128) as u64);
                let mut s = self.c.st.lock().unwrap();
                loop {
                    if let Some(v) = s.q.pop_front() {
                        drop(s);
                        self.c.cv_send.notify_all();
                        return Ok(v);
                    }
                    if s.senders == 0 {
                        return Err(RecvTimeoutError::Disconnected);
                    }
                    if clock::read() > deadline {
                        clock::trace(|| format!("recv_timeout -> Timeout (deadline {deadline})"));
                        return Err(RecvTimeoutError::Timeout);
                    }
                    clock::trace(|| format!("recv_timeout waits until {deadline}"));
                    // Registered while holding the channel lock; the time thread takes the same lock before it
                    // notifies, so the wake-up cannot fall between this check and the wait.
                    let c = self.c.clone();
                    let id = clock::register(
                        deadline,
                        Box::new(move || {
                            let g = c.st.lock().unwrap();
                            drop(g);
                            c.cv_recv.notify_all();
                        }),
                    );
                    s = self.c.cv_recv.wait(s).unwrap();
                    clock::unregister(id);
                }
            }
        }
    }
}

//! Command line, seeded batches in forked workers, replay files, evidence.
use shuttle::scheduler::{PctScheduler, RandomScheduler, ReplayScheduler};
use shuttle::{Config, FailurePersistence, MaxSteps, Runner};
use std::io::{Read, Write};
use std::os::fd::FromRawFd;
use std::sync::atomic::Ordering;
use std::time::Instant;

const VERIF: &str = "/verif";

fn arg<'a>(a: &'a [String], k: &str) -> Option<&'a str> {
    a.iter().position(|x| x == k).and_then(|i| a.get(i + 1)).map(|s| s.as_str())
}

fn scenario_of(prop: &str) -> Option<fn()> {
    match prop {
        "C34" => Some(crate::c34::scenario),
        "C42" => Some(crate::c42::scenario),
        _ => None,
    }
}

fn sched_dir() -> std::path::PathBuf {
    std::path::PathBuf::from(format!("{VERIF}/replays/.sched-{}", std::process::id()))
}

fn config() -> Config {
    let mut c = Config::new();
    let _ = std::fs::create_dir_all(sched_dir());
    c.failure_persistence = FailurePersistence::File(Some(sched_dir()));
    c.max_steps = MaxSteps::FailAfter(200_000);
    c.stack_size = 0x40000;
    c
}

fn panic_text(p: Box<dyn std::any::Any + Send>) -> String {
    if let Some(s) = p.downcast_ref::<String>() { s.clone() } else if let Some(s) = p.downcast_ref::<&str>() { s.to_string() } else { "<panic>".into() }
}

/// stable discriminator of a failure: the `Cxx.rule` prefix of an oracle message, or the kind of engine failure
fn signature(prop: &str, msg: &str) -> String {
    if let Some(i) = msg.find(&format!("{prop}.")) {
        let rest = &msg[i..];
        let end = rest.find(':').unwrap_or(rest.len().min(40));
        return rest[..end].to_string();
    }
    if msg.contains("deadlock") {
        return format!("{prop}.deadlock");
    }
    if msg.contains("exceeded max_steps") || msg.contains("max_steps") {
        return format!("{prop}.no-progress");
    }
    format!("{prop}.panic")
}

fn schedule_from_panic(msg: &str) -> Option<String> {
    // shuttle prints: failing schedule: "<encoded>"
    let i = msg.find("failing schedule")?;
    let rest = &msg[i..];
    let a = rest.find('"')? + 1;
    let b = rest[a..].find('"')? + a;
    Some(rest[a..b].to_string())
}

#[derive(Default)]
struct Out {
    iters: u64,
    failures: Vec<(u64, String, String, String)>, // seed, sig, message, schedule
    counters: Vec<(String, u64)>,
    samples: Vec<String>,
    fps: std::collections::HashSet<u64>,
    known: Vec<(String, String)>,
    known_n: u64,
}

fn counters(prop: &str) -> Vec<(String, u64)> {
    let mut v = vec![("critical_sections_entered".to_string(), critical_section::ENTERED.load(Ordering::Relaxed))];
    if prop == "C34" {
        for (i, n) in ["oneshot", "mpsc", "notification"].iter().enumerate() {
            v.push((format!("runs.{n}"), crate::c34::RUNS[i].load(Ordering::Relaxed)));
        }
        v.push(("receiver_polls_pending".into(), crate::c34::PENDING_POLLS.load(Ordering::Relaxed)));
        v.push(("disconnections_observed".into(), crate::c34::DISCONNECTS.load(Ordering::Relaxed)));
        v.push(("values_delivered".into(), crate::c34::VALUES.load(Ordering::Relaxed)));
    } else {
        for (i, n) in ["sleeps", "cancel", "executor_tasks", "block_timeout", "cross_thread_wake"].iter().enumerate() {
            v.push((format!("runs.{n}"), crate::c42::RUNS[i].load(Ordering::Relaxed)));
        }
        v.push(("sleeps_completed".into(), crate::c42::SLEEPS_DONE.load(Ordering::Relaxed)));
        v.push(("timeouts_returned".into(), crate::c42::TIMEOUTS.load(Ordering::Relaxed)));
        v.push(("cancellations_judged".into(), crate::c42::CANCELS_JUDGED.load(Ordering::Relaxed)));
        v.push(("simulated_ns".into(), crate::c42::SIM_NS.load(Ordering::Relaxed)));
        v.push(("clock_jumps".into(), crate::c42::CLOCK_JUMPS.load(Ordering::Relaxed)));
    }
    v
}

/// one batch = one scheduler instance (its own seed) running `iters` executions; stops at the first failure.
/// Runs in a child process of its own: a failing execution can take the process down (a second panic while
/// shuttle unwinds its threads aborts), and the verdict must survive that.
type BatchOk = (Vec<(String, u64)>, Vec<String>, Vec<u64>, Vec<(String, String)>, u64);
fn batch(prop: &str, seed: u64, iters: usize, pct: bool) -> Result<BatchOk, (String, String)> {
    let mut fds = [0i32; 2];
    unsafe {
        libc::pipe(fds.as_mut_ptr());
        let pid = libc::fork();
        if pid == 0 {
            libc::close(fds[0]);
            let dir = sched_dir();
            let _ = std::fs::create_dir_all(&dir);
            // everything shuttle and the oracles print goes to a file the parent reads if this process dies
            let errp = std::ffi::CString::new(format!("{}/stderr.txt", dir.display())).unwrap();
            let fd = libc::open(errp.as_ptr(), libc::O_WRONLY | libc::O_CREAT | libc::O_TRUNC, 0o644);
            libc::dup2(fd, 2);
            std::panic::set_hook(Box::new(|i| eprintln!("panic: {i}")));
            let f = scenario_of(prop).unwrap();
            let r = std::panic::catch_unwind(move || {
                if pct {
                    Runner::new(PctScheduler::new_from_seed(seed, 3, iters), config()).run(f);
                } else {
                    Runner::new(RandomScheduler::new_from_seed(seed, iters), config()).run(f);
                }
            });
            let j = match r {
                Ok(()) => serde_json::json!({"ok": true, "counters": counters(prop), "samples": crate::record::SAMPLES.lock().unwrap().clone(), "fps": crate::record::take_fps(), "known": crate::record::KNOWN_HITS.lock().unwrap().iter().take(3).map(|k| serde_json::json!([k.0, k.1])).collect::<Vec<_>>(), "known_n": crate::record::KNOWN_HITS.lock().unwrap().len()}),
                Err(p) => serde_json::json!({"ok": false, "msg": panic_text(p)}),
            };
            let mut file = std::fs::File::from_raw_fd(fds[1]);
            let _ = file.write_all(j.to_string().as_bytes());
            let _ = file.flush();
            libc::_exit(0);
        }
        libc::close(fds[1]);
        let mut file = std::fs::File::from_raw_fd(fds[0]);
        let mut buf = String::new();
        let _ = file.read_to_string(&mut buf);
        let mut st = 0;
        libc::waitpid(pid, &mut st, 0);
        let dir = std::path::PathBuf::from(format!("{VERIF}/replays/.sched-{pid}"));
        let v: serde_json::Value = serde_json::from_str(&buf).unwrap_or_default();
        let res = if v["ok"] == serde_json::json!(true) {
            Ok((
                v["counters"].as_array().map(|a| a.iter().map(|c| (c[0].as_str().unwrap_or("").to_string(), c[1].as_u64().unwrap_or(0))).collect()).unwrap_or_default(),
                v["samples"].as_array().map(|a| a.iter().filter_map(|x| x.as_str().map(|s| s.to_string())).collect()).unwrap_or_default(),
                v["fps"].as_array().map(|a| a.iter().filter_map(|x| x.as_u64()).collect()).unwrap_or_default(),
                v["known"].as_array().map(|a| a.iter().map(|x| (x[0].as_str().unwrap_or("").to_string(), x[1].as_str().unwrap_or("").to_string())).collect()).unwrap_or_default(),
                v["known_n"].as_u64().unwrap_or(0),
            ))
        } else {
            let log = std::fs::read_to_string(dir.join("stderr.txt")).unwrap_or_default();
            let mut msg = v["msg"].as_str().unwrap_or("").to_string();
            // the oracle's own message is the first panic; shuttle's summary may come later
            if let Some(l) = log.lines().find(|l| l.contains(&format!("{prop}."))) {
                msg = format!("{l}\n{msg}");
            } else if msg.is_empty() {
                msg = log.lines().find(|l| l.contains("deadlock") || l.contains("max_steps") || l.starts_with("panic:")).unwrap_or("process died without a message").to_string();
            }
            let sched = std::fs::read_to_string(dir.join("schedule000.txt")).unwrap_or_default();
            Err((msg, sched))
        };
        let _ = std::fs::remove_dir_all(&dir);
        res
    }
}

fn worker(prop: &str, base: u64, w: u64, jobs: u64, batches: u64, iters: usize, wall_cap: u64) -> Out {
    let t0 = Instant::now();
    let mut out = Out::default();
    let mut ctr: std::collections::BTreeMap<String, u64> = Default::default();
    let mut b = w;
    while b < batches {
        if t0.elapsed().as_secs() > wall_cap {
            break;
        }
        let seed = base.wrapping_mul(1_000_003).wrapping_add(b);
        let pct = b % 3 == 2;
        let mut r = batch(prop, seed, iters, pct);
        if pct && matches!(&r, Err((m, _)) if m.contains("did not exercise any concurrency")) {
            // PCT calibrates on its first execution and refuses to continue when that one happened to have no
            // scheduling choice (an assertion of the scheduler, not a verdict): use the random scheduler instead
            r = batch(prop, seed, iters, false);
        }
        match r {
            Ok((c, smp, fps, kn, kn_n)) => {
                out.known_n += kn_n;
                if out.known.len() < 3 {
                    out.known.extend(kn);
                }
                out.iters += iters as u64;
                for (k, v) in c {
                    *ctr.entry(k).or_insert(0) += v;
                }
                if out.samples.len() < 4 {
                    out.samples.extend(smp.into_iter().map(|x| format!("seed {seed} ({}): {x}", if pct { "PCT" } else { "random" })));
                }
                if out.fps.len() < 4_000_000 {
                    out.fps.extend(fps);
                }
            }
            Err((msg, sched)) => {
                out.iters += 1;
                out.failures.push((seed, signature(prop, &msg), msg, sched));
            }
        }
        b += jobs;
    }
    out.counters = ctr.into_iter().collect();
    out
}

fn known() -> Vec<(String, String)> {
    let s = std::fs::read_to_string(format!("{VERIF}/known_findings.json")).unwrap_or_default();
    let v: serde_json::Value = serde_json::from_str(&s).unwrap_or_default();
    v["findings"].as_array().map(|a| a.iter().map(|f| (f["property"].as_str().unwrap_or("").to_string(), f["signature"].as_str().unwrap_or("").to_string())).collect()).unwrap_or_default()
}

fn first_line(m: &str) -> String {
    let l = m.lines().find(|l| l.contains("C34.") || l.contains("C42.") || l.contains("deadlock") || l.contains("max_steps")).unwrap_or(m.lines().next().unwrap_or(""));
    l.chars().take(400).collect()
}

fn check(args: &[String]) -> i32 {
    let prop = arg(args, "--prop").expect("--prop").to_string();
    if scenario_of(&prop).is_none() {
        eprintln!("unknown property {prop}");
        return 2;
    }
    let tier = arg(args, "--tier").map(|s| s.to_string()).or(std::env::var("VERIF_TIER").ok()).unwrap_or("quick".into());
    let base: u64 = arg(args, "--seed").map(|s| s.to_string()).or(std::env::var("VERIF_SEED").ok()).and_then(|s| s.parse().ok()).unwrap_or(1);
    let jobs: u64 = arg(args, "--jobs").and_then(|s| s.parse().ok()).unwrap_or(16);
    let iters: usize = arg(args, "--iters").and_then(|s| s.parse().ok()).unwrap_or(2000);
    let batches: u64 = arg(args, "--batches").and_then(|s| s.parse().ok()).unwrap_or(if tier == "quick" { 640 } else { 48000 });
    let wall_cap: u64 = arg(args, "--wall-cap-s").and_then(|s| s.parse().ok()).unwrap_or(if tier == "quick" { 240 } else { 7200 });
    // --no-known: treat listed findings as violations (used to regenerate their replay files)
    let no_known = args.iter().any(|a| a == "--no-known");
    if !no_known {
        *crate::record::KNOWN.lock().unwrap() = known().into_iter().filter(|k| k.0 == prop).map(|k| k.1).collect();
    }
    let t0 = Instant::now();
    println!("check property={prop} engine=shuttle tier={tier} seed_base={base} batches={batches} iterations_per_batch={iters} jobs={jobs}");

    // determinism self-check: the same batch twice in separate processes must fail/pass identically
    for b in 0..2u64 {
        let run = |_: u32| in_child(|| {
            let o = worker(&prop, base, b, 1_000_000, b + 1, 300, 1000);
            format!("{}|{:?}|{:?}", o.iters, o.failures.iter().map(|f| (&f.1, &f.3)).collect::<Vec<_>>(), o.counters).into_bytes()
        });
        let (a, c) = (run(0), run(1));
        if a != c || a.is_none() {
            eprintln!("HARNESS ERROR: nondeterministic batch {b}");
            return 2;
        }
    }

    let mut pipes = vec![];
    for w in 0..jobs {
        let mut fds = [0i32; 2];
        unsafe {
            libc::pipe(fds.as_mut_ptr());
            let pid = libc::fork();
            if pid == 0 {
                libc::close(fds[0]);
                if std::env::var("VERIF_VERBOSE").is_err() {
                    let null = libc::open(c"/dev/null".as_ptr(), libc::O_WRONLY);
                    libc::dup2(null, 2);
                }
                let o = worker(&prop, base, w, jobs, batches, iters, wall_cap);
                let _ = std::fs::remove_dir_all(sched_dir());
                let j = serde_json::json!({"iters": o.iters, "failures": o.failures.iter().map(|f| serde_json::json!([f.0, f.1, f.2, f.3])).collect::<Vec<_>>(), "counters": o.counters, "samples": o.samples, "fps": o.fps.iter().collect::<Vec<_>>(), "known": o.known.iter().map(|k| serde_json::json!([k.0, k.1])).collect::<Vec<_>>(), "known_n": o.known_n});
                let mut file = std::fs::File::from_raw_fd(fds[1]);
                let _ = file.write_all(j.to_string().as_bytes());
                let _ = file.flush();
                libc::_exit(0);
            }
            libc::close(fds[1]);
            pipes.push((pid, fds[0]));
        }
    }
    let mut total_iters = 0u64;
    let mut failures: Vec<(u64, String, String, String)> = vec![];
    let mut ctr: std::collections::BTreeMap<String, u64> = Default::default();
    let mut samples: Vec<String> = vec![];
    let mut fps: std::collections::HashSet<u64> = Default::default();
    let mut soft_known: std::collections::BTreeMap<String, (u64, String)> = Default::default();
    let mut soft_known_n = 0u64;
    for (pid, fd) in pipes {
        let mut file = unsafe { std::fs::File::from_raw_fd(fd) };
        let mut buf = String::new();
        let _ = file.read_to_string(&mut buf);
        let mut st = 0;
        unsafe { libc::waitpid(pid, &mut st, 0) };
        let Ok(v) = serde_json::from_str::<serde_json::Value>(&buf) else {
            eprintln!("HARNESS ERROR: worker died");
            return 2;
        };
        total_iters += v["iters"].as_u64().unwrap_or(0);
        for f in v["failures"].as_array().cloned().unwrap_or_default() {
            failures.push((f[0].as_u64().unwrap(), f[1].as_str().unwrap().into(), f[2].as_str().unwrap().into(), f[3].as_str().unwrap().into()));
        }
        for c in v["counters"].as_array().cloned().unwrap_or_default() {
            *ctr.entry(c[0].as_str().unwrap().to_string()).or_insert(0) += c[1].as_u64().unwrap_or(0);
        }
        if samples.len() < 6 {
            samples.extend(v["samples"].as_array().cloned().unwrap_or_default().into_iter().filter_map(|x| x.as_str().map(|s| s.to_string())).take(2));
        }
        fps.extend(v["fps"].as_array().cloned().unwrap_or_default().into_iter().filter_map(|x| x.as_u64()));
        for k in v["known"].as_array().cloned().unwrap_or_default() {
            let e = soft_known.entry(k[0].as_str().unwrap_or("").to_string()).or_insert((0u64, k[1].as_str().unwrap_or("").to_string()));
            e.0 += 0;
        }
        soft_known_n += v["known_n"].as_u64().unwrap_or(0);
    }
    failures.sort();
    let kn = if no_known { vec![] } else { known() };
    let mut by_sig: std::collections::BTreeMap<String, Vec<&(u64, String, String, String)>> = Default::default();
    for f in &failures {
        by_sig.entry(f.1.clone()).or_default().push(f);
    }
    let mut rc = 0;
    let mut known_hit: std::collections::BTreeMap<String, u64> = Default::default();
    std::fs::create_dir_all(format!("{VERIF}/replays")).ok();
    for (sig, fs) in &by_sig {
        let f = fs[0];
        if kn.iter().any(|k| k.0 == prop && k.1 == *sig) {
            println!("KNOWN-FINDING: property={prop} {sig}: {}", first_line(&f.2));
            known_hit.insert(sig.clone(), fs.len() as u64);
            continue;
        }
        let path = format!("{VERIF}/replays/{prop}-{}.json", f.0);
        let shortest = fs.iter().filter(|x| !x.3.is_empty()).min_by_key(|x| x.3.len()).unwrap_or(&f);
        let j = serde_json::json!({"engine": "shuttle", "property": prop, "signature": sig, "detail": first_line(&shortest.2), "seed": shortest.0, "schedule": shortest.3});
        std::fs::write(&path, serde_json::to_string_pretty(&j).unwrap()).ok();
        println!("violation sig=\"{sig}\" batches={} first_seed={} detail: {}", fs.len(), f.0, first_line(&f.2));
        println!("VIOLATION property={prop} replay={path}");
        rc = 1;
    }
    for (sig, (_, msg)) in &soft_known {
        println!("KNOWN-FINDING: property={prop} {sig} [{soft_known_n} execution(s)] {}", first_line(msg));
        known_hit.insert(sig.clone(), soft_known_n);
    }
    let wall = t0.elapsed().as_secs_f64();
    let nontrivial = fps.len() as u64;
    println!("done property={prop} executions={total_iters} failing_batches={} known={} wall_s={wall:.1}", failures.len(), known_hit.len());
    // evidence
    let rule = if prop == "C34" {
        "each evaluation is one complete shuttle execution (all threads finished) of a randomly drawn channel scenario under a seeded random or PCT(depth 3) thread schedule; it is non-trivial iff the receiver was polled at least once before the value/notification arrived (Pending returned, so delivery depended on the wake-up); distinct = distinct interleaving fingerprints (hash of the sequence of (thread, critical-section entry) events of the execution) among the non-trivial executions, deduplicated over the whole run (at most 4M fingerprints kept per worker process)"
    } else {
        "each evaluation is one complete shuttle execution of a randomly drawn std-runtime scenario (concurrent sleeps, cancelled sleep, executor tasks with join, block_timeout, cross-thread wake) under a seeded random or PCT(depth 3) thread schedule with a virtual clock; non-trivial iff the virtual clock had to jump to a timed waiter's deadline at least once; distinct = distinct interleaving fingerprints (hash of the sequence of (thread, event) for clock readings, channel sends, park/unpark, clock jumps, critical sections) among the non-trivial executions, deduplicated over the whole run (at most 4M kept per worker process)"
    };
    let ev = serde_json::json!({
        "property_id": prop,
        "level": "exploration",
        "engine": "shuttle",
        "tier": tier,
        "seed": base,
        "coverage": {
            "evaluations": total_iters,
            "distinct_nontrivial": nontrivial,
            "rule": rule,
            "counters": ctr,
            "failing_batches": failures.len(),
            "known_findings_hit": known_hit,
            "runs_per_hour": (total_iters as f64 / wall.max(0.001) * 3600.0) as u64,
            "schedulers": {"random": "2 of 3 batches", "pct_depth_3": "1 of 3 batches"},
            "determinism_batches_checked": 2,
            "real_components": if prop == "C34" { serde_json::json!(["dds/src/dcps/channels/oneshot.rs", "dds/src/dcps/channels/mpsc.rs", "dds/src/dcps/channels/notification.rs (verbatim)"]) } else { serde_json::json!(["dds/src/std_runtime/timer.rs", "dds/src/std_runtime/executor.rs (std:: paths redirected to simstd::, otherwise verbatim)", "dds/src/dcps/channels/oneshot.rs"]) },
            "stubbed_components": if prop == "C34" { serde_json::json!(["critical-section crate: global lock built on shuttle::sync::Mutex (re-entrant like the std implementation)", "task wakers/park: shuttle::future::block_on"]) } else { serde_json::json!(["std::thread, Mutex, atomics, park/unpark: shuttle", "std::time::Instant: virtual clock", "std::sync::mpsc: own implementation on shuttle Mutex/Condvar with firing receive timeouts", "tracing macros: real crate, no subscriber"]) },
            "samples": samples,
            "failing_samples": failures.iter().take(3).map(|f| serde_json::json!({"seed": f.0, "signature": f.1})).collect::<Vec<_>>(),
        },
        "wall_s": wall,
        "violations": if rc == 0 { 0 } else { 1 },
        "result": if rc == 0 { "held on everything explored" } else { "violation" },
        "assumptions": ["shuttle's scheduler models sequentially consistent threads; weak-memory reorderings are outside this engine", "bounded: at most 4 threads and a handful of operations per execution", "seeded sampling of schedules: a clean batch is evidence, not proof"],
    });
    std::fs::create_dir_all(format!("{VERIF}/evidence")).ok();
    std::fs::write(format!("{VERIF}/evidence/{prop}.json"), serde_json::to_string_pretty(&ev).unwrap()).ok();
    rc
}

fn in_child(f: impl FnOnce() -> Vec<u8>) -> Option<Vec<u8>> {
    let mut fds = [0i32; 2];
    unsafe {
        libc::pipe(fds.as_mut_ptr());
        let pid = libc::fork();
        if pid == 0 {
            libc::close(fds[0]);
            if std::env::var("VERIF_VERBOSE").is_err() {
                let null = libc::open(c"/dev/null".as_ptr(), libc::O_WRONLY);
                libc::dup2(null, 2);
            }
            let out = f();
            let _ = std::fs::remove_dir_all(sched_dir());
            let mut file = std::fs::File::from_raw_fd(fds[1]);
            let _ = file.write_all(&out);
            let _ = file.flush();
            libc::_exit(0);
        }
        libc::close(fds[1]);
        let mut file = std::fs::File::from_raw_fd(fds[0]);
        let mut buf = vec![];
        let _ = file.read_to_end(&mut buf);
        let mut st = 0;
        libc::waitpid(pid, &mut st, 0);
        if libc::WIFEXITED(st) && libc::WEXITSTATUS(st) == 0 { Some(buf) } else { None }
    }
}

fn replay(args: &[String]) -> i32 {
    let path = &args[0];
    let Ok(s) = std::fs::read_to_string(path) else {
        eprintln!("cannot read {path}");
        return 2;
    };
    let v: serde_json::Value = serde_json::from_str(&s).unwrap_or_default();
    let prop = v["property"].as_str().unwrap_or("").to_string();
    let sig = v["signature"].as_str().unwrap_or("").to_string();
    let sched = v["schedule"].as_str().unwrap_or("").to_string();
    let Some(f) = scenario_of(&prop) else { return 2 };
    // the oracle's panic comes first; shuttle may panic again while it unwinds ("schedule ended early")
    static FIRST: std::sync::Mutex<Option<String>> = std::sync::Mutex::new(None);
    std::panic::set_hook(Box::new(|i| {
        let mut f = FIRST.lock().unwrap();
        if f.is_none() {
            *f = Some(i.to_string());
        }
    }));
    let r = std::panic::catch_unwind(move || {
        let sch = ReplayScheduler::new_from_encoded(&sched);
        Runner::new(sch, config()).run(f);
    });
    let _ = std::fs::remove_dir_all(sched_dir());
    match r {
        Ok(()) => {
            println!("replay property={prop} signature=\"{sig}\" reproduced=false");
            0
        }
        Err(p) => {
            let msg = FIRST.lock().unwrap().clone().unwrap_or_else(|| panic_text(p));
            let got = signature(&prop, &msg);
            println!("replay property={prop} signature=\"{sig}\" reproduced={} got=\"{got}\"", got == sig);
            println!("  {}", first_line(&msg));
            println!("VIOLATION property={prop} replay={path}");
            1
        }
    }
}

pub fn main() -> i32 {
    let args: Vec<String> = std::env::args().skip(1).collect();
    // the panic hook would print every oracle panic; failures are reported by the driver
    if std::env::var("VERIF_VERBOSE").is_ok() {
        std::panic::set_hook(Box::new(|i| eprintln!("panic: {i}\n{}", std::backtrace::Backtrace::force_capture())));
    } else {
        std::panic::set_hook(Box::new(|_| {}));
    }
    unsafe { std::env::set_var(shuttle::SILENCE_WARNINGS, "1") };
    match args.first().map(|s| s.as_str()) {
        Some("check") => check(&args[1..]),
        Some("replay") => replay(&args[1..]),
        _ => {
            eprintln!("usage: ddshuttle check --prop C34|C42 [--tier quick|thorough] | replay <file>");
            2
        }
    }
}

//! Engine B: thread-level deterministic simulation (shuttle) of dust-dds' worker channels (C34) and of the std
//! runtime's timer / executor / blocking helpers (C42). The sources under test are taken from /repo's working
//! tree at build time (see build.rs).

extern crate alloc;

pub mod simstd;

/// what the sources under test import from the rest of dust-dds
pub mod infrastructure {
    pub mod error {
        #[derive(Debug, PartialEq, Eq, Clone)]
        pub enum DdsError {
            Error(String),
            Timeout,
            AlreadyDeleted,
        }
        pub type DdsResult<T> = Result<T, DdsError>;
    }
}
pub mod runtime {
    use core::future::Future;
    pub trait Timer: Clone + Send + Sync + 'static {
        fn delay(&mut self, duration: core::time::Duration) -> impl Future<Output = ()> + Send;
    }
    pub trait TaskHandle: Send + Sync + 'static {
        fn join(&self);
    }
    pub trait Spawner: Clone + Send + Sync + 'static {
        type TaskHandle: TaskHandle;
        fn spawn(&self, f: impl Future<Output = ()> + Send + 'static) -> Self::TaskHandle;
    }
}

#[allow(dead_code, unused_imports)]
pub mod channels {
    pub mod oneshot {
        include!(concat!(env!("OUT_DIR"), "/chan_oneshot.rs"));
    }
    pub mod mpsc {
        include!(concat!(env!("OUT_DIR"), "/chan_mpsc.rs"));
    }
    pub mod notification {
        include!(concat!(env!("OUT_DIR"), "/chan_notification.rs"));
    }
}
#[allow(dead_code, unused_imports)]
pub mod std_runtime {
    pub mod timer {
        include!(concat!(env!("OUT_DIR"), "/rt_timer.rs"));
    }
    pub mod executor {
        include!(concat!(env!("OUT_DIR"), "/rt_executor.rs"));
    }
}

/// per-process record of what was explored (plain std primitives, invisible to the scheduler)
pub mod record {
    use std::collections::HashSet;
    use std::sync::Mutex;
    pub static SAMPLES: Mutex<Vec<String>> = Mutex::new(Vec::new());
    pub static FPS: Mutex<Option<HashSet<u64>>> = Mutex::new(None);
    pub fn sample(f: impl FnOnce() -> String) {
        let mut s = SAMPLES.lock().unwrap();
        if s.len() < 3 {
            s.push(f());
        }
    }
    pub fn begin() {
        critical_section::begin_execution();
    }
    /// called at the end of a complete execution
    pub fn end(nontrivial: bool) {
        if nontrivial {
            let fp = critical_section::end_execution();
            FPS.lock().unwrap().get_or_insert_with(HashSet::new).insert(fp);
        }
    }
    /// signatures listed in /verif/known_findings.json (loaded once, before any execution)
    pub static KNOWN: Mutex<Vec<String>> = Mutex::new(Vec::new());
    pub static KNOWN_HITS: Mutex<Vec<(String, String)>> = Mutex::new(Vec::new());
    /// An oracle reports a violation. One that is a listed known finding is counted and the execution goes on
    /// (a panic would end the whole batch at its first occurrence and nothing else would be explored);
    /// anything else panics and fails the batch.
    pub fn violation(sig: &str, msg: String) {
        if KNOWN.lock().unwrap().iter().any(|k| k == sig) {
            let mut h = KNOWN_HITS.lock().unwrap();
            if h.len() < 1000 {
                h.push((sig.to_string(), msg));
            }
            return;
        }
        panic!("{msg}");
    }
    pub fn take_fps() -> Vec<u64> {
        FPS.lock().unwrap().take().map(|s| s.into_iter().collect()).unwrap_or_default()
    }
}

mod c34;
mod c42;
mod driver;

fn main() {
    std::process::exit(driver::main());
}

//! C34: worker channels never lose values or wake-ups (oneshot, mpsc, notification), every interleaving of
//! senders, receivers and drops on different threads. A lost wake-up shows as a deadlock (all threads blocked),
//! which the scheduler reports.

use crate::channels::{mpsc::mpsc_channel, notification::notification, oneshot::oneshot};
use crate::infrastructure::error::DdsError;
use shuttle::rand::{thread_rng, Rng};
use shuttle::thread;
use std::future::Future;
use std::pin::Pin;
use std::sync::atomic::{AtomicU64, Ordering};
use std::sync::Arc;
use std::task::{Context, Poll, Wake, Waker};

pub static RUNS: [AtomicU64; 3] = [AtomicU64::new(0), AtomicU64::new(0), AtomicU64::new(0)];
pub static PENDING_POLLS: AtomicU64 = AtomicU64::new(0);
pub static DISCONNECTS: AtomicU64 = AtomicU64::new(0);
pub static VALUES: AtomicU64 = AtomicU64::new(0);

struct Noop;
impl Wake for Noop {
    fn wake(self: Arc<Self>) {}
}

/// First poll registers a throw-away waker, later polls the real one: a channel that keeps a stale waker
/// (instead of the most recent one) loses the wake-up.
struct SwapWaker<F> {
    inner: F,
    first: bool,
}
impl<F: Future + Unpin> Future for SwapWaker<F> {
    type Output = F::Output;
    fn poll(mut self: Pin<&mut Self>, cx: &mut Context<'_>) -> Poll<F::Output> {
        if self.first {
            self.first = false;
            let w = Waker::from(Arc::new(Noop));
            let mut c2 = Context::from_waker(&w);
            if let Poll::Ready(v) = Pin::new(&mut self.inner).poll(&mut c2) {
                return Poll::Ready(v);
            }
            PENDING_POLLS.fetch_add(1, Ordering::Relaxed);
            cx.waker().wake_by_ref();
            return Poll::Pending;
        }
        let r = Pin::new(&mut self.inner).poll(cx);
        if r.is_pending() {
            PENDING_POLLS.fetch_add(1, Ordering::Relaxed);
        }
        r
    }
}
fn wait<F: Future + Unpin>(f: F, swap: bool) -> F::Output {
    shuttle::future::block_on(SwapWaker { inner: f, first: swap })
}
fn jitter(rng: &mut impl Rng) {
    for _ in 0..rng.gen_range(0..3) {
        thread::sleep(std::time::Duration::ZERO);
    }
}

pub fn scenario() {
    crate::record::begin();
    let before = PENDING_POLLS.load(Ordering::Relaxed);
    let mut rng = thread_rng();
    match rng.gen_range(0..3) {
        0 => oneshot_case(),
        1 => mpsc_case(),
        _ => notification_case(),
    }
    // non-trivial: the receiver had to be woken (it saw Pending at least once)
    crate::record::end(PENDING_POLLS.load(Ordering::Relaxed) > before);
}

fn oneshot_case() {
    RUNS[0].fetch_add(1, Ordering::Relaxed);
    let mut rng = thread_rng();
    let (tx, rx) = oneshot::<u64>();
    let mode = rng.gen_range(0..4); // 0,1: send  2: drop without sending  3: receiver dropped, then send
    let swap = rng.gen_bool(0.5);
    let value = rng.gen_range(1..1000u64);
    crate::record::sample(|| format!("oneshot: sender {} (value {value}), receiver {}", ["sends", "sends", "is dropped without sending", "sends after the receiver was dropped"][mode], if swap { "re-polled with a different waker" } else { "polled with one waker" }));
    let sender = thread::spawn(move || {
        let mut rng = thread_rng();
        jitter(&mut rng);
        match mode {
            2 => drop(tx),
            _ => tx.send(value),
        }
    });
    if mode == 3 {
        let mut rng = thread_rng();
        jitter(&mut rng);
        drop(rx); // a send into a channel nobody listens to must be harmless
    } else {
        let got = wait(rx, swap);
        match (mode, got) {
            (2, Err(DdsError::AlreadyDeleted)) => {
                DISCONNECTS.fetch_add(1, Ordering::Relaxed);
            }
            (2, other) => panic!("C34.oneshot-disconnect: sender dropped without sending but the receiver got {other:?}"),
            (_, Ok(v)) if v == value => {
                VALUES.fetch_add(1, Ordering::Relaxed);
            }
            (_, other) => panic!("C34.oneshot-value: sent {value} but the receiver got {other:?}"),
        }
    }
    sender.join().unwrap();
}

fn mpsc_case() {
    RUNS[1].fetch_add(1, Ordering::Relaxed);
    let mut rng = thread_rng();
    let (tx, rx) = mpsc_channel::<(u8, u8)>();
    let n_senders = rng.gen_range(1..=3u8);
    let mut total = 0usize;
    let mut hs = vec![];
    for sid in 0..n_senders {
        let k = rng.gen_range(1..=3u8);
        total += k as usize;
        let tx = tx.clone();
        hs.push(thread::spawn(move || {
            let mut rng = thread_rng();
            for i in 0..k {
                jitter(&mut rng);
                tx.send((sid, i)).expect("channel is open");
            }
        }));
    }
    let swap = rng.gen_bool(0.5);
    crate::record::sample(|| format!("mpsc: {n_senders} sender threads, {total} values in total, receiver {}", if swap { "re-polled with a different waker" } else { "polled with one waker" }));
    let mut next = [0u8; 3];
    for _ in 0..total {
        let fut = Box::pin(rx.receive());
        match wait(fut, swap) {
            Some((sid, i)) => {
                if next[sid as usize] != i {
                    panic!("C34.mpsc-order: value {i} of sender {sid} received while expecting {} (lost, duplicated or reordered)", next[sid as usize]);
                }
                next[sid as usize] += 1;
                VALUES.fetch_add(1, Ordering::Relaxed);
            }
            None => panic!("C34.mpsc-closed: queue reported closed while senders exist"),
        }
    }
    for h in hs {
        h.join().unwrap();
    }
    // nothing but what was sent
    let w = Waker::from(Arc::new(Noop));
    let mut cx = Context::from_waker(&w);
    let mut fut = Box::pin(rx.receive());
    if let Poll::Ready(Some(v)) = fut.as_mut().poll(&mut cx) {
        panic!("C34.mpsc-phantom: received {v:?} after every sent value had been received");
    }
    drop(tx);
}

fn notification_case() {
    RUNS[2].fetch_add(1, Ordering::Relaxed);
    let mut rng = thread_rng();
    let (tx, mut rx) = notification();
    let n_senders = rng.gen_range(1..=3usize);
    let started = Arc::new(AtomicU64::new(0)); // notify calls begun
    let dropping = Arc::new(AtomicU64::new(0)); // senders whose drop has begun
    let mut hs = vec![];
    let mut total_notifies = 0u64;
    let mut txs = vec![tx];
    for _ in 1..n_senders {
        if rng.gen_bool(0.5) {
            txs.push(txs[0].clone());
        }
    }
    let n_senders = txs.len() as u64 + 0;
    let mut extra_clones = 0u64;
    for tx in txs {
        let n = rng.gen_range(0..=2u64);
        total_notifies += n;
        let clone_inside = rng.gen_bool(0.3);
        if clone_inside {
            extra_clones += 1;
        }
        let (started, dropping) = (started.clone(), dropping.clone());
        hs.push(thread::spawn(move || {
            let mut rng = thread_rng();
            let second = if clone_inside { Some(tx.clone()) } else { None };
            for _ in 0..n {
                jitter(&mut rng);
                started.fetch_add(1, Ordering::SeqCst);
                tx.notify();
            }
            jitter(&mut rng);
            dropping.fetch_add(1, Ordering::SeqCst);
            drop(tx);
            if let Some(s) = second {
                jitter(&mut rng);
                dropping.fetch_add(1, Ordering::SeqCst);
                drop(s);
            }
        }));
    }
    let all = n_senders + extra_clones;
    crate::record::sample(|| format!("notification: {all} sender handles on {n_senders} threads ({extra_clones} cloned inside a thread), {total_notifies} notify calls, then all dropped"));
    let swap = rng.gen_bool(0.5);
    let mut oks = 0u64;
    loop {
        let r = wait(std::future::poll_fn(|cx| Pin::new(&mut rx).poll(cx)), swap);
        match r {
            Ok(()) => {
                oks += 1;
                let s = started.load(Ordering::SeqCst);
                if oks > s {
                    panic!("C34.notification-spurious: {oks} notifications received but only {s} notify calls had begun");
                }
            }
            Err(_) => {
                let d = dropping.load(Ordering::SeqCst);
                if d < all {
                    panic!("C34.notification-disconnect: disconnection reported while only {d} of {all} senders had been dropped");
                }
                DISCONNECTS.fetch_add(1, Ordering::Relaxed);
                break;
            }
        }
    }
    if total_notifies > 0 && oks == 0 {
        panic!("C34.notification-lost: {total_notifies} notify calls but the receiver saw none before the disconnection");
    }
    VALUES.fetch_add(oks, Ordering::Relaxed);
    for h in hs {
        h.join().unwrap();
    }
}

//! C42: std runtime timers and blocking helpers. Real code: std_runtime/timer.rs and executor.rs with `std::`
//! redirected to `simstd::` (virtual clock, channels whose timed receive fires, shuttle threads).

use crate::channels::oneshot::oneshot;
use crate::infrastructure::error::DdsError;
use crate::runtime::TaskHandle;
use crate::simstd::{clock, sync::mpsc, time::Instant};
use crate::std_runtime::executor::{block_on, block_timeout, verif_shutdown, Executor};
use crate::std_runtime::timer::{verif_join, TimerDriver};
use shuttle::rand::{thread_rng, Rng};
use shuttle::thread;
use std::future::Future;
use std::pin::Pin;
use std::sync::atomic::{AtomicU64, Ordering};
use std::sync::Arc;
use std::task::{Context, Poll, Wake, Waker};
use std::time::Duration;

pub static RUNS: [AtomicU64; 5] = [AtomicU64::new(0), AtomicU64::new(0), AtomicU64::new(0), AtomicU64::new(0), AtomicU64::new(0)];
pub static SLEEPS_DONE: AtomicU64 = AtomicU64::new(0);
pub static TIMEOUTS: AtomicU64 = AtomicU64::new(0);
pub static CANCELS_JUDGED: AtomicU64 = AtomicU64::new(0);
pub static SIM_NS: AtomicU64 = AtomicU64::new(0);
pub static CLOCK_JUMPS: AtomicU64 = AtomicU64::new(0);

const DURS: [Duration; 7] = [Duration::ZERO, Duration::from_nanos(1), Duration::from_micros(50), Duration::from_millis(1), Duration::from_millis(1), Duration::from_millis(50), Duration::from_secs(3600)];

struct CountWake(AtomicU64);
impl Wake for CountWake {
    fn wake(self: Arc<Self>) {
        self.0.fetch_add(1, Ordering::SeqCst);
    }
}

pub fn scenario() {
    crate::record::begin();
    let mut rng = thread_rng();
    let tick = *[1_000u64, 100_000, 3_000_000].get(rng.gen_range(0..3)).unwrap();
    clock::set_tick(tick);
    let time_thread = thread::spawn(clock::run_time_thread);
    let driver = TimerDriver::new();
    let executor = Executor::new();
    let pick = rng.gen_range(0..5);
    crate::simstd::thread::SPURIOUS.store(true, Ordering::Relaxed);
    let pick = std::env::var("VERIF_C42_ONLY").ok().and_then(|v| v.parse().ok()).unwrap_or(pick);
    crate::record::sample(|| format!("std runtime scenario '{}' with a clock tick of {} ns per reading", ["concurrent sleeps", "cancelled sleep", "executor tasks + join", "block_timeout", "cross-thread wake of block_on"][pick as usize], tick));
    match pick {
        0 => sleeps(&driver),
        1 => cancel(&driver),
        2 => tasks(&driver, &executor),
        3 => timeouts(&driver),
        _ => cross_thread_wake(),
    }
    // orderly shutdown: every thread has to end for the execution to count as complete
    // (timer thread first: wakers still queued in its heap keep executor tasks, and through them the executor's
    // channel, alive; a real process simply exits with the executor thread parked)
    verif_join(driver);
    verif_shutdown(executor);
    let (now, jumps, _reads) = clock::stats();
    SIM_NS.fetch_add(now, Ordering::Relaxed);
    CLOCK_JUMPS.fetch_add(jumps, Ordering::Relaxed);
    clock::stop();
    time_thread.join().unwrap();
    // non-trivial: the clock had to jump to a timed waiter's deadline
    crate::record::end(jumps > 0);
}

/// any number of concurrent sleeps: none completes early, all complete
fn sleeps(driver: &TimerDriver) {
    RUNS[0].fetch_add(1, Ordering::Relaxed);
    let mut rng = thread_rng();
    let n = rng.gen_range(1..=3);
    let mut hs = vec![];
    for _ in 0..n {
        let timer = driver.handle();
        let d = DURS[rng.gen_range(0..DURS.len())];
        hs.push(thread::spawn(move || {
            let t0 = Instant::now();
            block_on(timer.sleep(d));
            let t1 = Instant::now();
            if t1 < t0 + d {
                panic!("C42.sleep-early: a sleep of {d:?} created at {} ns completed at {} ns", t0.0, t1.0);
            }
            SLEEPS_DONE.fetch_add(1, Ordering::Relaxed);
        }));
    }
    for h in hs {
        h.join().unwrap();
    }
}

/// a sleep dropped before its deadline never wakes the task that polled it
fn cancel(driver: &TimerDriver) {
    RUNS[1].fetch_add(1, Ordering::Relaxed);
    let mut rng = thread_rng();
    let timer = driver.handle();
    let d1 = [Duration::from_millis(1), Duration::from_millis(20), Duration::from_secs(60)][rng.gen_range(0..3)];
    let cw = Arc::new(CountWake(AtomicU64::new(0)));
    let waker = Waker::from(cw.clone());
    let mut cx = Context::from_waker(&waker);
    let mut s = Box::pin(timer.sleep(d1));
    let t_poll = Instant::now();
    let first = s.as_mut().poll(&mut cx);
    // a pending sleep is usually polled again before it is dropped (its task was woken for another reason)
    let mut still_pending = first.is_pending();
    for _ in 0..rng.gen_range(0..3) {
        thread::sleep(Duration::ZERO);
        if still_pending && rng.gen_bool(0.7) {
            still_pending = s.as_mut().poll(&mut cx).is_pending();
        }
    }
    drop(s);
    let t_drop = Instant::now();
    let judged = first.is_pending() && still_pending && t_drop < t_poll + d1;
    // A zero-length sleep is queued behind the cancellation: when it completes, the timer thread has processed
    // the cancellation. If the clock is still before the deadline then, a later wake cannot be blamed on a
    // timer thread that got to the cancellation too late.
    crate::simstd::thread::SPURIOUS.store(false, Ordering::Relaxed);
    block_on(timer.sleep(Duration::ZERO));
    crate::simstd::thread::SPURIOUS.store(true, Ordering::Relaxed);
    let cancel_processed_in_time = Instant::now() < t_poll + d1;
    // let the clock pass the deadline of the dropped sleep
    block_on(timer.sleep(d1 + Duration::from_millis(5)));
    drop(timer);
    if judged {
        CANCELS_JUDGED.fetch_add(1, Ordering::Relaxed);
        let n = cw.0.load(Ordering::SeqCst);
        if n != 0 {
            if cancel_processed_in_time {
                panic!("C42.cancelled-sleep-woke-after-cancel-processed: a sleep of {d1:?} polled at {} ns and dropped at {} ns woke its task {n} time(s) although the timer thread had processed its cancellation before the deadline", t_poll.0, t_drop.0);
            }
            crate::record::violation("C42.cancelled-sleep-woke", format!("C42.cancelled-sleep-woke: a sleep of {d1:?} polled at {} ns and dropped at {} ns (before its deadline) woke its task {n} time(s): the timer thread reached the deadline before it read the cancellation", t_poll.0, t_drop.0));
        }
    }
}

/// tasks on the executor thread await sleeps; join returns after the task ran to completion
fn tasks(driver: &TimerDriver, executor: &Executor) {
    RUNS[2].fetch_add(1, Ordering::Relaxed);
    let mut rng = thread_rng();
    let k = rng.gen_range(1..=3u32);
    let (tx, rx) = mpsc::channel::<u32>();
    let handle = executor.handle();
    let mut hs = vec![];
    for id in 0..k {
        let mut timer = driver.handle();
        let d = DURS[rng.gen_range(0..DURS.len() - 1)];
        let tx = tx.clone();
        hs.push(handle.spawn(async move {
            let t0 = Instant::now();
            crate::runtime::Timer::delay(&mut timer, d).await;
            let t1 = Instant::now();
            if t1 < t0 + d {
                panic!("C42.sleep-early: a sleep of {d:?} created at {} ns completed at {} ns (executor task)", t0.0, t1.0);
            }
            tx.send(id).unwrap();
        }));
    }
    drop(tx);
    drop(handle);
    for h in &hs {
        h.join();
    }
    let mut got = vec![];
    while let Ok(v) = rx.try_recv() {
        got.push(v);
    }
    got.sort();
    if got != (0..k).collect::<Vec<_>>() {
        panic!("C42.join-before-completion: join returned for all {k} tasks but only tasks {got:?} had completed");
    }
    SLEEPS_DONE.fetch_add(k as u64, Ordering::Relaxed);
    drop(hs);
}

struct Never;
impl Future for Never {
    type Output = u32;
    fn poll(self: Pin<&mut Self>, _cx: &mut Context<'_>) -> Poll<u32> {
        Poll::Pending
    }
}

/// block_timeout: the output when the future completes, Timeout only after the duration has really passed
fn timeouts(driver: &TimerDriver) {
    RUNS[3].fetch_add(1, Ordering::Relaxed);
    let mut rng = thread_rng();
    let limit = [Duration::ZERO, Duration::from_micros(200), Duration::from_millis(2), Duration::from_millis(100)][rng.gen_range(0..4)];
    let t0 = Instant::now();
    let check_timeout = |what: &str| {
        let t1 = Instant::now();
        if t1 < t0 + limit {
            panic!("C42.timeout-early: block_timeout({limit:?}) of {what} started at {} ns returned Timeout at {} ns", t0.0, t1.0);
        }
        TIMEOUTS.fetch_add(1, Ordering::Relaxed);
    };
    match rng.gen_range(0..4) {
        0 => match block_timeout(limit, async { 7u32 }) {
            Ok(7) => {}
            other => panic!("C42.block-timeout-output: a ready future produced {other:?}"),
        },
        1 => match block_timeout(limit, Never) {
            Err(DdsError::Timeout) => check_timeout("a future that never completes"),
            other => panic!("C42.block-timeout-output: a future that never completes produced {other:?}"),
        },
        2 => {
            let d = DURS[rng.gen_range(0..DURS.len() - 1)];
            let timer = driver.handle();
            match block_timeout(limit, async move {
                timer.sleep(d).await;
                9u32
            }) {
                Ok(9) => {
                    SLEEPS_DONE.fetch_add(1, Ordering::Relaxed);
                }
                Err(DdsError::Timeout) => check_timeout("a sleep"),
                other => panic!("C42.block-timeout-output: sleep future produced {other:?}"),
            }
        }
        _ => {
            // completed from another thread
            let (tx, rx) = oneshot::<u32>();
            let h = thread::spawn(move || {
                thread::sleep(Duration::ZERO);
                tx.send(11)
            });
            match block_timeout(limit, rx) {
                Ok(Ok(11)) => {}
                Err(DdsError::Timeout) => check_timeout("a reply sent by another thread"),
                other => panic!("C42.block-timeout-output: reply future produced {other:?}"),
            }
            h.join().unwrap();
        }
    }
}

/// block_on parks the thread; the wake comes from another thread (unpark before / after park)
fn cross_thread_wake() {
    RUNS[4].fetch_add(1, Ordering::Relaxed);
    let mut rng = thread_rng();
    let n = rng.gen_range(1..=3u32);
    for i in 0..n {
        let (tx, rx) = oneshot::<u32>();
        let h = thread::spawn(move || {
            let mut rng = thread_rng();
            for _ in 0..rng.gen_range(0..3) {
                thread::sleep(Duration::ZERO);
            }
            tx.send(i)
        });
        match block_on(rx) {
            Ok(v) if v == i => {}
            other => panic!("C42.block-on-output: block_on returned {other:?} for a future that resolves to {i}"),
        }
        h.join().unwrap();
    }
}

//! Stand-in for the `critical-section` crate (std implementation = one global lock) built on shuttle's
//! scheduler-controlled Mutex, so that entering a critical section is a scheduling point and mutual exclusion
//! between threads is decided by the simulator. API subset used by dust-dds' channels: `with`, `Mutex::new`,
//! `Mutex::borrow`, `CriticalSection`.
use std::marker::PhantomData;

#[derive(Clone, Copy)]
pub struct CriticalSection<'cs>(PhantomData<&'cs ()>);

/// Like critical_section::Mutex: access needs the critical-section token
pub struct Mutex<T>(T);
unsafe impl<T: Send> Sync for Mutex<T> {}
impl<T> Mutex<T> {
    pub const fn new(v: T) -> Self {
        Mutex(v)
    }
    pub fn borrow<'cs>(&'cs self, _cs: CriticalSection<'cs>) -> &'cs T {
        &self.0
    }
}
impl<T: std::fmt::Debug> std::fmt::Debug for Mutex<T> {
    fn fmt(&self, f: &mut std::fmt::Formatter<'_>) -> std::fmt::Result {
        f.write_str("Mutex { .. }")
    }
}

shuttle::lazy_static! {
    static ref GLOBAL: shuttle::sync::Mutex<()> = shuttle::sync::Mutex::new(());
}
shuttle::thread_local! {
    static DEPTH: std::cell::Cell<u32> = std::cell::Cell::new(0);
}

/// Interleaving fingerprint of the current execution: every instrumented event (critical section, channel
/// operation, clock reading, park/unpark) mixes in (thread ordinal, event kind). Plain atomics: not scheduling points.
pub static FP: std::sync::atomic::AtomicU64 = std::sync::atomic::AtomicU64::new(0);
pub static NEXT_TID: std::sync::atomic::AtomicU64 = std::sync::atomic::AtomicU64::new(0);
shuttle::thread_local! {
    static TID: std::cell::Cell<u64> = std::cell::Cell::new(u64::MAX);
}
pub fn probe(tag: u64) {
    use std::sync::atomic::Ordering::Relaxed;
    let t = TID.with(|c| {
        if c.get() == u64::MAX {
            c.set(NEXT_TID.fetch_add(1, Relaxed));
        }
        c.get()
    });
    let v = (FP.load(Relaxed) ^ (t.wrapping_mul(1_000_003).wrapping_add(tag))).wrapping_mul(0x0000_0100_0000_01b3);
    FP.store(v, Relaxed);
}
pub fn begin_execution() {
    use std::sync::atomic::Ordering::Relaxed;
    FP.store(0xcbf2_9ce4_8422_2325, Relaxed);
    NEXT_TID.store(0, Relaxed);
}
pub fn end_execution() -> u64 {
    FP.load(std::sync::atomic::Ordering::Relaxed)
}

/// Number of critical sections entered (coverage probe; plain atomic, not a scheduling point)
pub static ENTERED: std::sync::atomic::AtomicU64 = std::sync::atomic::AtomicU64::new(0);

pub fn with<R>(f: impl FnOnce(CriticalSection<'_>) -> R) -> R {
    ENTERED.fetch_add(1, std::sync::atomic::Ordering::Relaxed);
    probe(1);
    // the std implementation is re-entrant
    let nested = DEPTH.with(|d| d.get() > 0);
    if nested {
        return f(CriticalSection(PhantomData));
    }
    let _g = GLOBAL.lock().unwrap();
    DEPTH.with(|d| d.set(d.get() + 1));
    struct Reset;
    impl Drop for Reset {
        fn drop(&mut self) {
            DEPTH.with(|d| d.set(d.get() - 1));
        }
    }
    let _r = Reset;
    f(CriticalSection(PhantomData))
}

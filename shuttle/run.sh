#!/bin/bash
# ./run.sh <C34|C42> <tier> [replay-file] [extra args]: rebuild engine B from /repo's working tree and run the check
set -u
cd "$(dirname "$0")"
PROP="$1"; TIER="${2:-quick}"; REPLAY="${3:-}"; shift; shift; [ $# -gt 0 ] && shift
export CARGO_NET_OFFLINE=true
mkdir -p /verif/target /verif/replays /verif/evidence
if ! cargo build --release --offline 2>/verif/target/build-shuttle.log >/dev/null; then
  echo "HARNESS ERROR: shuttle engine build failed (see /verif/target/build-shuttle.log)"; tail -30 /verif/target/build-shuttle.log
  exit 2
fi
BIN=/verif/target/shuttle/release/ddshuttle
if [ -n "$REPLAY" ]; then
  exec "$BIN" replay "$REPLAY"
fi
exec "$BIN" check --prop "$PROP" --tier "$TIER" "$@"

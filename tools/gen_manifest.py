#!/usr/bin/env python3
"""Regenerate /verif/MANIFEST.json from the table below (keeps it valid while checks come up)."""
import json, subprocess
props=[json.loads(l) for l in open('/verif/properties.jsonl')]
NA={
"C07":"totality of decoders is a pure function of a byte string: no schedule, clock, fault or second party (the system-level consequence is C06, which is simulated)",
"C08":"RTPS message encode/decode round trip is a pure codec property over field values; nothing for a simulator to schedule or fault",
"C09":"XCDR round trip over types/values is a pure codec property",
"C10":"byte equality with an independent XTypes implementation: pure codec property needing an external encoder, not a simulated system",
"C11":"instance-handle equality iff key equality is a pure function of two values",
"C12":"key-hash construction rule is a pure function of the key members",
"C13":"discovery parameter-list round trip is a pure codec property (its end-to-end QoS effect is observed under C37)",
"C14":"time/duration conversion and arithmetic are pure functions",
"C38":"set_fragment_size range check: single-object setter without concurrency, time or I/O",
"C39":"type assignability and cross-type decoding are pure functions of (type pair, value)",
"C40":"derive-macro output is a compile-time program property",
"C41":"IDL compiler output is a compile-time program property",
}
# property -> (engine, design section, technique, level text)
SIM="deterministic whole-stack simulation (ddsim): seeded schedules + network faults, oracle over recorded history"
CHECKS={
"C01":("ddsim","5/C01","deterministic simulation: seeded datagram loss/dup/reorder/partition on user traffic, stream-model oracle (exactly once, per-instance order, byte identity, completion after heal)"),
"C02":("ddsim","5/C02","deterministic simulation: seeded loss/dup/heavy reorder, subsequence oracle for best-effort readers"),
"C03":("ddsim","5/C03","deterministic simulation: freeze-the-network-and-read soundness oracle at every successful wait_for_acknowledgments, bounded completion after heal incl. reader deletion / participant crash / deletion"),
"C04":("ddsim","5/C04","deterministic simulation: late joiners at seeded instants vs writes, retained-history model, wait_for_historical_data freeze-and-read, VOLATILE readers judged against reader creation time"),
"C05":("ddsim","5/C05","deterministic simulation: fragment-size and payload-size sweep with scripted/probabilistic fragment loss, dup and reorder; byte-identity and completion oracle"),
"C06":("ddsim","5/C06","deterministic simulation: hostile datagrams (bit/field mutations of captured traffic, crafted well-formed messages with extreme fields and forged source, next-sequence-number re-sends with mutated payloads, random bytes) injected into a live two-participant system; oracle: no task/API panic, no process death or CPU-time hang, worker heap growth bounded by bytes received (counting allocator), API answers and fresh endpoints communicate with a newly joined participant afterwards"),
"C15":("ddsim","5/C15","deterministic simulation: boundary-biased QoS configurations x creation order x SEDP faults; DDS RxO table + partition (fnmatch) model judged from both sides at quiescence; incompatibility reports via listeners"),
"C16":("ddsim","5/C16","deterministic simulation: histories of remote endpoint create/delete/QoS change, participant crash (lease expiry) and deletion; matched-set model at quiescent points; wire silence towards departed readers"),
"C17":("ddsim","5/C17","deterministic simulation: SPDP loss, domain id/tag mixes on a shared medium, scripted foreign participants with seeded leases falling silent, ignore_participant; discovery timeline polled every 5 ms against lease windows"),
"C18":("ddsim","5/C18","deterministic simulation: sequenced reader-cache histories (every change acknowledged before the next op) under network faults, conformance to a DDS reader-cache reference model (KEEP_LAST facet)"),
"C19":("ddsim","5/C19","deterministic simulation: reader-cache reference model (resource-limit facet) incl. sample-rejected status via listener, writer-side limits checked with a late TRANSIENT_LOCAL reader"),
"C20":("ddsim","5/C20","deterministic simulation: reader-cache reference model (read/take facet): selection by masks, max_samples prefix rule, grouping, sample/view/instance states, generation counts and ranks"),
"C21":("ddsim","5/C21","deterministic simulation: BY_SOURCE_TIMESTAMP readers fed with skewed / equal / decreasing timestamps from 1-3 writers; order invariant on every read result"),
"C22":("ddsim","5/C22","deterministic simulation: 1-3 writers write/dispose/unregister (autodispose on/off) with reads in between; DDS instance life-cycle automaton"),
"C23":("ddsim","5/C23","deterministic simulation: next-instance walks with masks over instances in mixed read/unread/taken states against the reference model"),
"C24":("ddsim","5/C24","deterministic simulation: 2-3 writers of different/equal strength, owner unregister / deletion / crash / deadline miss; owner model, two readers must agree"),
"C25":("ddsim","5/C25","deterministic simulation: time-based filter with source clocks stepping below/at/above minimum_separation and takes in between; pairwise separation invariant + reference model"),
"C26":("ddsim","5/C26","deterministic simulation: datagram coalescing (several DATA in one RTPS message) plus loss/dup; filtered reader log must equal the control reader's log restricted to the predicate"),
"C27":("ddsim","5/C27","deterministic simulation: ACKNACK direction partitioned/lossy, reader crash, concurrent writer clients; Ok-written => delivered, Timeout window, late TRANSIENT_LOCAL joiner bounds what the writer holds"),
"C28":("ddsim","5/C28","deterministic simulation: 1-3 concurrent client tasks on keyed/keyless, enabled/disabled writers; linearizability (Wing-Gong search) against a sequential instance-management model"),
"C29":("ddsim","5/C29","deterministic simulation: delays, loss-forced repairs and partitions across the expiry instant, late joiners, back-dated timestamps; nothing whose first arrival is after timestamp+lifespan is presented"),
"C30":("ddsim","5/C30","deterministic simulation: per-instance write timing patterns around the deadline period, varying schedulers/costs; count windows from a deadline model on writer and reader side, one signal per increment"),
"C31":("ddsim","5/C31","deterministic simulation: deadlines, lifespans, short foreign leases and blocked writes placed on/around multiples of the poke period; every worker timer request <= 50 ms and no wake-up gap"),
"C32":("ddsim","5/C32","deterministic simulation: waiters racing status raisers, status readers and mask changers under random/PCT schedules; trigger-value model at quiescent points, missed wake-up detection"),
"C33":("ddsim","5/C33","deterministic simulation: listener x mask configurations on three levels, seven kinds of status events; precedence model: exactly one callback at the most specific enabled level"),
"C34":("shuttle","5/C34","deterministic thread-level simulation (shuttle, seeded random and PCT schedulers): the three channel source files compiled verbatim against a scheduler-controlled critical-section; senders, receivers, waker swaps and drops on separate threads; oracle: exactly-once, per-sender FIFO, disconnection only after all senders dropped, lost wake-up = deadlock"),
"C35":("ddsim","5/C35","deterministic simulation: long create/delete histories (beyond 256 entities of a kind) with handle-uniqueness invariant, panic/hang detection"),
"C36":("ddsim","5/C36","deterministic simulation: concurrent create/delete/operate histories over the entity tree incl. wrong parents and deleted entities; linearizability against an entity-tree model"),
"C37":("ddsim","5/C37","deterministic simulation: concurrent create/set_qos/get_qos with consistent, inconsistent and immutable changes; linearizability against a QoS model"),
"C42":("shuttle","5/C42","deterministic thread-level simulation (shuttle) of std_runtime/timer.rs and executor.rs with std:: redirected to a scheduler-controlled std (virtual clock, firing receive timeouts, bounded spurious park wake-ups): concurrent sleeps, cancelled sleeps, executor tasks with join, block_timeout, cross-thread wake; oracle on virtual time: no early completion, no wake after cancellation, Timeout only after the duration, lost wake-up = deadlock"),
}
import os
claimed=[c for c in CHECKS if os.environ.get('ONLY') is None or c in os.environ['ONLY'].split(',')]
hooks_commits=["a1c8341"]
m={"version":1,
"setup_cmd":"./setup.sh",
"hooks":{"guard":"dust_dds_verif","enable":"RUSTFLAGS --cfg dust_dds_verif (set in /verif/sim/.cargo/config.toml). One hook: rtps_udp_transport::udp_transport::verif_resolve_destination, which lets the simulated transport run the real UDP sender's destination resolution (C06). Everything else plugs into dust-dds' public DdsRuntime / TransportParticipantFactory seams (DomainParticipantFactoryAsync::new)","baseline_off_cmd":"cd /repo && cargo test --workspace --no-fail-fast --offline","source_commits":hooks_commits,"add_only":True},
"engines":[{"name":"shuttle","path":"/verif/shuttle","serves_properties":[c for c in claimed if CHECKS[c][0]=="shuttle"],"kind_free_text":"thread-level deterministic simulation with shuttle 0.9.3 (seeded random / PCT schedulers, replayable schedules); sources under test copied from /repo at build time; own virtual clock, timed channels and park/unpark"},{"name":"ddsim","path":"/verif/sim","serves_properties":[c for c in claimed if CHECKS[c][0]=="ddsim"],"kind_free_text":"single-threaded discrete-event simulator: own executor, virtual clock/timers, in-memory faulty datagram network; runs the real dust-dds stack through its public runtime/transport seams; one forked process per run"}],
"checks":[{
  "property_id":c,
  "quick_cmd":f"./check {c} --tier quick",
  "thorough_cmd":f"./check {c} --tier thorough",
  "evidence_file":f"/verif/evidence/{c}.json",
  "replay_cmd_template":f"./check {c} --replay {{path}}",
  "engine":CHECKS[c][0],
  "level_claimed":{"category":"exploration","text":"seeded search over schedules and fault sequences of whole-system simulated executions; a clean batch is evidence that the property holds on the explored executions, not a proof","design_ref":"DESIGN.md section "+CHECKS[c][1]},
  "level_note":("trusts shuttle's scheduler as a model of sequentially consistent threads, the hand-written simstd (clock, mpsc with timeouts, park) as a model of std, and the oracles in /verif/shuttle/src" if CHECKS[c][0]=="shuttle" else "trusts the simulator's executor/clock/network as a model of legal runtime and UDP behaviour, the reference models/oracles in /verif/sim/src/scen, and the Rust toolchain; real dust-dds code runs unmodified (one guarded, add-only hook, see hooks)"),
  "technique":CHECKS[c][2],
 } for c in claimed],
"notes":"Known findings and fixed defects: /verif/known_findings.json. Violations print 'VIOLATION property=<id> replay=<path>' and exit 1; harness errors exit 2.",
"not_applicable":[{"property_id":k,"reason":v} for k,v in NA.items()]+[{"property_id":p['id'],"reason":"check not built yet in this round (claimed in DESIGN.md; will move to checks[])"} for p in props if p['id'] not in NA and p['id'] not in claimed]
}
json.dump(m,open('/verif/MANIFEST.json','w'),indent=1)
print("claimed",len(claimed),"na",len(m['not_applicable']))

#!/usr/bin/env python3
"""Regenerate /verif/MANIFEST.json from the table below (keeps it valid while checks come up)."""
import json, subprocess
props=[json.loads(l) for l in open('/verif/properties.jsonl')]
NA={
"C07":"totality of decoders is a pure function of a byte string: no schedule, clock, fault or second party (the system-level consequence is C06, which is simulated)",
"C08":"RTPS message encode/decode round trip is a pure codec property over field values; nothing for a simulator to schedule or fault",
"C09":"XCDR round trip over types/values is a pure codec property",
"C10":"byte equality with an independent XTypes implementation: pure codec property needing an external encoder, not a simulated system",
"C11":"instance-handle equality iff key equality is a pure function of two values",
"C12":"key-hash construction rule is a pure function of the key members",
"C13":"discovery parameter-list round trip is a pure codec property (its end-to-end QoS effect is observed under C37)",
"C14":"time/duration conversion and arithmetic are pure functions",
"C38":"set_fragment_size range check: single-object setter without concurrency, time or I/O",
"C39":"type assignability and cross-type decoding are pure functions of (type pair, value)",
"C40":"derive-macro output is a compile-time program property",
"C41":"IDL compiler output is a compile-time program property",
}
# property -> (engine, design section, technique, level text)
SIM="deterministic whole-stack simulation (ddsim): seeded schedules + network faults, oracle over recorded history"
CHECKS={
"C01":("ddsim","5/C01","deterministic simulation: seeded datagram loss/dup/reorder/partition on user traffic, stream-model oracle (exactly once, per-instance order, byte identity, completion after heal)"),
"C02":("ddsim","5/C02","deterministic simulation: seeded loss/dup/heavy reorder, subsequence oracle for best-effort readers"),
"C03":("ddsim","5/C03","deterministic simulation: freeze-the-network-and-read soundness oracle at every successful wait_for_acknowledgments, bounded completion after heal incl. reader deletion / participant crash / deletion"),
"C04":("ddsim","5/C04","deterministic simulation: late joiners at seeded instants vs writes, retained-history model, wait_for_historical_data freeze-and-read, VOLATILE readers judged against reader creation time"),
"C05":("ddsim","5/C05","deterministic simulation: fragment-size and payload-size sweep with scripted/probabilistic fragment loss, dup and reorder; byte-identity and completion oracle"),
}
import os
claimed=[c for c in CHECKS if os.environ.get('ONLY') is None or c in os.environ['ONLY'].split(',')]
hooks_commits=[]
m={"version":1,
"setup_cmd":"./setup.sh",
"hooks":{"guard":"dust_dds_verif","enable":"no hooks are needed: the simulator plugs into dust-dds' public DdsRuntime / TransportParticipantFactory seams (DomainParticipantFactoryAsync::new)","baseline_off_cmd":"cd /repo && cargo test --workspace --no-fail-fast --offline","source_commits":hooks_commits,"add_only":True},
"engines":[{"name":"ddsim","path":"/verif/sim","serves_properties":[c for c in claimed if CHECKS[c][0]=="ddsim"],"kind_free_text":"single-threaded discrete-event simulator: own executor, virtual clock/timers, in-memory faulty datagram network; runs the real dust-dds stack through its public runtime/transport seams; one forked process per run"}],
"checks":[{
  "property_id":c,
  "quick_cmd":f"./check {c} --tier quick",
  "thorough_cmd":f"./check {c} --tier thorough",
  "evidence_file":f"/verif/evidence/{c}.json",
  "replay_cmd_template":f"./check {c} --replay {{path}}",
  "engine":CHECKS[c][0],
  "level_claimed":{"category":"exploration","text":"seeded search over schedules and fault sequences of whole-system simulated executions; a clean batch is evidence that the property holds on the explored executions, not a proof","design_ref":"DESIGN.md section "+CHECKS[c][1]},
  "level_note":"trusts the simulator's executor/clock/network as a model of legal runtime and UDP behaviour, the reference models/oracles in /verif/sim/src/scen, and the Rust toolchain; real dust-dds code runs unmodified (no hooks)",
  "technique":CHECKS[c][2],
 } for c in claimed],
"notes":"Known findings and fixed defects: /verif/known_findings.json. Violations print 'VIOLATION property=<id> replay=<path>' and exit 1; harness errors exit 2.",
"not_applicable":[{"property_id":k,"reason":v} for k,v in NA.items()]+[{"property_id":p['id'],"reason":"check not built yet in this round (claimed in DESIGN.md; will move to checks[])"} for p in props if p['id'] not in NA and p['id'] not in claimed]
}
json.dump(m,open('/verif/MANIFEST.json','w'),indent=1)
print("claimed",len(claimed),"na",len(m['not_applicable']))

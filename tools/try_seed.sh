#!/bin/bash
# tools/try_seed.sh <patch.diff> <property> [extra check args]: apply a seeded change to /repo's working tree, run the
# property's quick check, undo the change (nothing is committed in /repo)
P="$1"; PROP="$2"; shift; shift
[ -z "$(git -C /repo status --porcelain)" ] || { echo "/repo working tree is not clean"; exit 3; }
git -C /repo apply "$P" || { echo "patch does not apply"; exit 3; }
cd /verif && ./check "$PROP" --tier quick "$@" 2>&1 | grep -i "^violation\|^done\|HARNESS\|^KNOWN" | cut -c1-420
git -C /repo checkout -- . ; git -C /repo status --porcelain | head -3

#!/bin/bash
# run every claimed check at the given tier (default quick) and print one summary line each
tier=${1:-quick}; shift || true   # further arguments are passed to every check, e.g. --wall-cap-s 600
cd /verif
for c in $(python3 -c "import json;print(' '.join(x['property_id'] for x in json.load(open('MANIFEST.json'))['checks']))"); do
  t0=$(date +%s)
  out=$(./check $c --tier $tier "$@" 2>&1); rc=$?
  echo "$c rc=$rc $(( $(date +%s)-t0 ))s $(echo "$out" | grep '^done' | cut -c1-200)"
  echo "$out" | grep "^VIOLATION\|^violation\|HARNESS" | cut -c1-300
done

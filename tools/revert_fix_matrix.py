#!/usr/bin/env python3
"""Sensitivity by reverted repairs: for every `fix:` commit recorded in known_findings.json, un-apply it in /repo's
working tree (never committed), run the quick check of the property it was found by, and restore the tree.
Result: /verif/seeded/reverted-fixes.json (which check notices which reverted repair)."""
import json, subprocess, re, sys, time, os
kf = json.load(open('/verif/known_findings.json'))
out_path = '/verif/seeded/reverted-fixes.json'
res = json.load(open(out_path)) if os.path.exists(out_path) else {}
only = sys.argv[1:]
def sh(cmd, **kw):
    return subprocess.run(cmd, shell=True, capture_output=True, text=True, **kw)
assert sh('git -C /repo status --porcelain').stdout.strip() == '', 'repo working tree not clean'
for line in kf['fixed']:
    m = re.match(r'fixed: property=(C\d+) ([0-9a-f]{7,}) (.*)', line)
    if not m:
        continue
    prop, commit, what = m.groups()
    key = f'{prop}:{commit}'
    if only and prop not in only and commit not in only:
        continue
    if key in res and not only:
        continue
    d = sh(f'git -C /repo diff {commit}^ {commit}').stdout
    open('/tmp/revert.patch', 'w').write(d)
    a = sh('git -C /repo apply -R --3way /tmp/revert.patch')
    if a.returncode != 0:
        sh('git -C /repo checkout -- . && git -C /repo reset -q')
        a = sh('git -C /repo apply -R /tmp/revert.patch')
    if a.returncode != 0:
        sh('git -C /repo checkout -- . && git -C /repo reset -q')
        res[key] = {'property': prop, 'commit': commit, 'what': what, 'result': 'revert does not apply on top of later repairs', 'detected': None}
        json.dump(res, open(out_path, 'w'), indent=1)
        continue
    sh('git -C /repo reset -q')
    t0 = time.time()
    b = sh('cd /repo && cargo build -p dust_dds --offline')
    if b.returncode != 0:
        res[key] = {'property': prop, 'commit': commit, 'what': what, 'result': 'reverted tree does not compile (later repairs build on it)', 'detected': None}
        sh('git -C /repo checkout -- . && git -C /repo reset -q')
        json.dump(res, open(out_path, 'w'), indent=1)
        print(key, 'does not compile', flush=True)
        continue
    props = [prop] + [x for x in re.findall(r'also (C\d+)', what) if x != prop]
    runs = []
    for pr in props:
        r = sh(f'cd /verif && ./check {pr} --tier quick', timeout=3600)
        viol = [l for l in r.stdout.splitlines() if l.startswith('violation') or 'HARNESS' in l]
        runs.append({'check': pr, 'exit_code': r.returncode, 'first_violation': (viol[0][:400] if viol else '')})
        if r.returncode == 1:
            break
    res[key] = {'property': prop, 'commit': commit, 'what': what, 'detected': any(x['exit_code'] == 1 for x in runs),
                'caught_by': [x['check'] for x in runs if x['exit_code'] == 1], 'runs': runs,
                'first_violation': next((x['first_violation'] for x in runs if x['exit_code'] == 1), ''), 'seconds': int(time.time() - t0)}
    sh('git -C /repo checkout -- . && git -C /repo reset -q')
    assert sh('git -C /repo status --porcelain').stdout.strip() == ''
    json.dump(res, open(out_path, 'w'), indent=1)
    print(key, res[key].get('detected'), res[key].get('first_violation', '')[:160], flush=True)

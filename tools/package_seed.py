#!/usr/bin/env python3
"""package_seed.py <id> <dest-name> '<json with my findings>': copy an agent's deliverables (/tmp/seed-<id>) into /verif/seeded/<dest-name>/"""
import json, os, shutil, sys
sid, dest, extra = sys.argv[1], sys.argv[2], json.loads(sys.argv[3])
src = f'/tmp/seed-{sid}'; dst = f'/verif/seeded/{dest}'
os.makedirs(dst + '/demo', exist_ok=True)
shutil.copy(src + '/patch.diff', dst + '/patch.diff')
for f in os.listdir(src + '/demo') if os.path.isdir(src + '/demo') else []:
    p = os.path.join(src, 'demo', f)
    if os.path.isfile(p) and os.path.getsize(p) < 400_000:
        shutil.copy(p, dst + '/demo/' + f)
wt_demo = f'/tmp/wt-{sid}/dds/tests/seeded_demo.rs'
if os.path.exists(wt_demo) and not os.path.exists(dst + '/demo/seeded_demo.rs'):
    shutil.copy(wt_demo, dst + '/demo/seeded_demo.rs')
if os.path.exists(f'/tmp/confirm-{sid}.log'):
    shutil.copy(f'/tmp/confirm-{sid}.log', dst + '/demo/confirmation_by_verifier.txt')
meta = {}
if os.path.exists(src + '/meta.json'):
    try:
        meta = json.load(open(src + '/meta.json'))
    except Exception as e:
        meta = {'agent_meta_unreadable': str(e)}
meta['verifier'] = extra
json.dump(meta, open(dst + '/meta.json', 'w'), indent=1)
print('packaged', dst, os.listdir(dst))

#!/bin/bash
# Determinism experiment: every scenario, N seeds, each executed twice in separate processes (and once more under a
# different environment: other working directory, extra environment variables, niced); the run summaries
# (fingerprint of the event log, step count, simulated time, violations) must be identical.
N=${1:-40}
BIN=/verif/target/sim/release/ddsim
out=/verif/seeded/determinism.txt
: > $out
total=0; bad=0
for sc in $($BIN list | awk "{print \$2}"); do
  for i in $(seq 1 $N); do
    seed=$((7000000 + i * 7919))
    a=$($BIN run --scenario $sc --seed $seed --brief 2>/dev/null | tail -1 | python3 -c "import sys,json; d=json.loads(sys.stdin.read()); print(d['fp'],d['steps'],d['sim_ms'],len(d['violations']))")
    b=$(cd /tmp && env FOO=bar LANG=C nice -n 5 $BIN run --scenario $sc --seed $seed --brief 2>/dev/null | tail -1 | python3 -c "import sys,json; d=json.loads(sys.stdin.read()); print(d['fp'],d['steps'],d['sim_ms'],len(d['violations']))")
    total=$((total+1))
    if [ "$a" != "$b" ] || [ -z "$a" ]; then bad=$((bad+1)); echo "DIVERGED $sc seed=$seed: [$a] vs [$b]" >> $out; fi
  done
  echo "$sc: $N seeds compared" >> $out
done
echo "pairs=$total diverged=$bad" >> $out
tail -1 $out

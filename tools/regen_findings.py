#!/usr/bin/env python3
"""Regenerate the curated replay files of the known findings (engine A) from a quick run of their checks:
the scenarios evolve, a replay file must describe a plan the current generator understands."""
import json, re, subprocess
kf = json.load(open('/verif/known_findings.json'))
by_prop = {}
for f in kf['findings']:
    by_prop.setdefault(f['property'], []).append(f)
for prop, fs in by_prop.items():
    if prop in ('C34', 'C42'):
        continue
    out = subprocess.run(f'cd /verif && ./check {prop} --tier quick', shell=True, capture_output=True, text=True).stdout
    for f in fs:
        m = re.search(r'KNOWN-FINDING: property=%s %s \[\d+ run\(s\), e\.g\. seed (\d+)\]' % (prop, re.escape(f['signature'])), out)
        if not m:
            print('no hit for', prop, f['signature']); continue
        seed = m.group(1)
        r = subprocess.run(['/verif/target/sim/release/ddsim', 'mkreplay', '--prop', prop, '--seed', seed, '--sig', f['signature'], '--out', '/verif/' + f['replay']], capture_output=True, text=True)
        print(prop, f['signature'], (r.stdout + r.stderr).strip().splitlines()[-1][:120])
